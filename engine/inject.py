"""Engine K front end: copy /repo's working tree to a scratch directory outside /repo and /verif
and append `#[cfg(kani)]` harness modules to the real source files. Add-only: every touched
file must still start with the original text, byte for byte; the injector aborts otherwise."""
import os, shutil, subprocess, hashlib, importlib.util, sys

ROOT = os.path.dirname(os.path.dirname(os.path.abspath(__file__)))


def load_group(name):
    p = os.path.join(ROOT, "kani", name + ".py")
    spec = importlib.util.spec_from_file_location("kani_" + name, p)
    m = importlib.util.module_from_spec(spec)
    spec.loader.exec_module(m)
    return m.GROUP


def make_tree(repo, dest, fresh=True):
    if fresh:
        shutil.rmtree(dest, ignore_errors=True)
    os.makedirs(dest, exist_ok=True)
    subprocess.run(["rsync", "-a", "--delete", "--exclude", "/.cargo", "--exclude", "/target", "--exclude", "/.git", "--exclude", "/tests-pl", "--exclude", "/benches/*.pl",
                    repo.rstrip("/") + "/", dest + "/"], check=True)
    return dest


def inject(repo, dest, groups):
    """groups: list of loaded GROUP dicts. Returns {file: (orig_sha, appended_text)}"""
    by_file = {}
    for g in groups:
        for f, modtext in g["modules"].items():
            if callable(modtext):
                modtext = modtext(repo)     # harness text that embeds items extracted from /repo on this run
            by_file.setdefault(f, []).append(modtext)
    report = {}
    for f, mods in by_file.items():
        src = os.path.join(repo, f)
        if not os.path.exists(src):
            raise FileNotFoundError("lost anchor: %s missing" % f)
        orig = open(src, encoding="utf-8").read()
        add = "\n" + "\n".join(mods) + "\n"
        new = orig + add
        open(os.path.join(dest, f), "w", encoding="utf-8").write(new)
        # add-only check against /repo
        back = open(os.path.join(dest, f), encoding="utf-8").read()
        if not back.startswith(orig) or back[len(orig):] != add:
            raise RuntimeError("injection altered original text of %s" % f)
        report[f] = {"sha256": hashlib.sha256(orig.encode()).hexdigest(), "appended_lines": add.count("\n")}
    # offline cargo config for the scratch tree
    os.makedirs(os.path.join(dest, ".cargo"), exist_ok=True)
    cfg = os.path.join(dest, ".cargo", "config.toml")
    prev = open(cfg).read() if os.path.exists(cfg) else ""
    if "offline" not in prev:
        open(cfg, "a").write("\n[net]\noffline = true\n")
    return report
