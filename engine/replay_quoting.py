"""Replay for C55: atoms over a mixed alphabet (small and capital letters, digits, underscore, graphic,
solo, layout, meta and non-ASCII characters) are written with writeq/1 on the real binary; an atom must
come out unquoted exactly when the property statement says so (oracle below, Python's Unicode classes
on characters where they agree with Rust's)."""
import os, re, subprocess, itertools
import replay_arith

ALPHABET = ["a", "z", "B", "0", "_", "+", "*", "/", ".", "\\", "!", ";", "[", "]", "{", "}", "(", ",", "|", "%", " ", "'", "\u00e9", "\u00c9", "\u03bb",
            "\x01", "\x7f", "\x85", "\x9b", "\u00a0", "\n", "\t"]
NAMED = {"'": "\\'", "\n": "\\n", "\r": "\\r", "\t": "\\t", "\x0b": "\\v", "\x0c": "\\f", "\x08": "\\b", "\x07": "\\a", "\\": "\\\\"}


def quoted_text(s):
    """the text writeq must produce for an atom that is quoted: the nine ISO escapes, other whitespace / control characters
    as \\xHH\\, everything else itself"""
    import unicodedata
    out = ["'"]
    for c in s:
        if c in NAMED:
            out.append(NAMED[c])
        elif c in (" ", '"'):
            out.append(c)
        elif c.isspace() or unicodedata.category(c) == "Cc":
            out.append("\\x%x\\" % ord(c))
        else:
            out.append(c)
    return "".join(out) + "'"

GRAPHIC = set("#$&*+-./:<=>?@^~\\")
SOLO = set("!(),;[]{}|%")
LAYOUT = set(" \r\n\t\x0b\x0c")
META = set("\\'\"`")


def alnum(c):
    alpha = (not c.isnumeric() and not c.isspace() and not (ord(c) < 32 or 127 <= ord(c) < 160) and c not in GRAPHIC
             and c not in LAYOUT and c not in META and c not in SOLO) or c == "_"
    return alpha or c.isnumeric()


def unquoted(s):
    if not s:
        return False
    if s[0].isalpha() and not s[0].isupper() and all(alnum(c) for c in s[1:]):
        return True
    if all(c in GRAPHIC for c in s) and s != "." and not s.startswith("/*"):
        return True
    return s in ("!", ";", "[]", "{}")


PROGRAM_HEAD = r"""
:- use_module(library(format)).
:- use_module(library(lists)).
t(I, Cs) :- atom_codes(A, Cs), format("~d ~q~n", [I, A]).
main :- g(I, Cs), t(I, Cs), fail.
main :- halt.
:- initialization(main).
"""


CANON_OPS2 = [":-", "-->", "','", ";", "->", "'|'", "=", "+", "*", "-", "is", "@<", "^", "**", "mod", ":"]
CANON_OPS1 = ["-", "\\+", ":-", "dynamic", "+", "?-"]


def canonical_terms():
    """terms written in functional notation with minimal quoting: write_canonical must reproduce the text"""
    ts = []
    for o in CANON_OPS2:
        ts += ["%s(a,b)" % o, "f(%s(a,b))" % o, "%s(%s(a,b),c)" % (o, o), "%s(a,%s(b,c))" % (o, o), "f(%s(1,-(2)))" % o, "g(x,%s(a,b),y)" % o]
    for o in CANON_OPS1:
        ts += ["%s(a)" % o, "f(%s(a))" % o, "%s(%s(a))" % (o, o), "%s(+(a,b))" % o, "+(%s(a),b)" % o, "f(%s(1))" % o]
    ts += ["f(:-(a,','(b,c)))", "-(-(1))", "-(a)", "1-(2)" if False else "-(1,2)", "f(;(->(a,b),c))", "*(+(a,b),-(c))", "'$VAR'(1)", "f('$VAR'(3),-(a))"]
    return ts


CANON_HEAD = r"""
t(I, T) :- write(I), write(' '), write_canonical(T), nl.
main :- g(I, T), t(I, T), fail.
main :- halt.
:- initialization(main).
"""


def replay_canonical(binary, scratch, log):
    ts = canonical_terms()
    path = os.path.join(scratch, "replay_canonical.pl")
    with open(path, "w", encoding="utf-8") as f:
        for i, t in enumerate(ts):
            f.write("g(%d, %s).\n" % (i, t))
        f.write(CANON_HEAD)
    p = subprocess.run([binary, "-f", "--no-add-history", path], capture_output=True, text=True, timeout=300, stdin=subprocess.DEVNULL)
    got = {}
    for line in p.stdout.split("\n"):
        m = re.match(r"(\d+) (.*)$", line)
        if m:
            got[int(m.group(1))] = m.group(2)
    fails = []
    for i, t in enumerate(ts):
        if i in got and got[i] != t:
            fails.append({"goal": "write_canonical(%s)" % t, "got": ["v", got[i]], "expected": ["v", t], "op": "write_canonical", "a": t, "b": None})
    log.append("write_canonical replay over %d terms: %d disagreements (%d answers)" % (len(ts), len(fails), len(got)))
    return fails if len(got) >= len(ts) // 2 else None


def replay_all(repo, by_ob, scratch, log):
    binary = replay_arith.build_binary(repo, log)
    if not binary:
        return {ob: None for ob in by_ob}
    os.makedirs(scratch, exist_ok=True)
    if all(("format_clause" in ob or "handle_op_as_struct" in ob or "is_numbered_var" in ob) for ob in by_ob):
        fails = replay_canonical(binary, scratch, log)
        return {ob: fails for ob in by_ob}
    sweep_canon = replay_canonical(binary, scratch, log) if any(ob.startswith("sweep::") for ob in by_ob) else []
    atoms = [""] if False else []
    for n in (1, 2, 3):
        for t in itertools.product(ALPHABET, repeat=n):
            if n == 3 and not (set(t) & set("/*.[]{}!;a+")):
                continue
            atoms.append("".join(t))
    os.makedirs(scratch, exist_ok=True)
    path = os.path.join(scratch, "replay_quoting.pl")
    with open(path, "w", encoding="utf-8") as f:
        for i, a in enumerate(atoms):
            f.write("g(%d, %s).\n" % (i, [ord(c) for c in a]))
        f.write(PROGRAM_HEAD)
    p = subprocess.run([binary, "-f", "--no-add-history", path], capture_output=True, text=True, timeout=900, stdin=subprocess.DEVNULL)
    got = {}
    for line in p.stdout.split("\n"):
        m = re.match(r"(\d+) (.*)$", line)
        if m:
            got[int(m.group(1))] = m.group(2)
    fails = []
    for i, a in enumerate(atoms):
        if i not in got:
            continue
        plain = got[i] == a
        if not plain and not unquoted(a) and got[i] != quoted_text(a) and len(fails) < 40:
            fails.append({"goal": "atom_codes(A, %s), writeq(A)" % [ord(c) for c in a], "got": ["v", got[i]], "expected": ["v", quoted_text(a)], "op": "writeq", "a": a, "b": None})
            continue
        if plain != unquoted(a) and len(fails) < 40:
            fails.append({"goal": "atom_codes(A, %s), writeq(A)" % [ord(c) for c in a], "got": ["v", got[i]],
                          "expected": ["v", "unquoted" if unquoted(a) else "quoted"], "op": "writeq", "a": a, "b": None})
    log.append("writeq replay over %d atoms: %d disagreements (exit %s, %d answers)" % (len(atoms), len(fails), p.returncode, len(got)))
    if len(got) < len(atoms) // 2:
        log.append("replay program produced too few answers: " + (p.stderr or "")[-400:])
        return {ob: None for ob in by_ob}
    return {ob: fails + (sweep_canon or []) for ob in by_ob}


def rerun(rec, repo):
    log = []
    r = replay_all(repo, {rec["obligation"]: []}, os.path.join(os.path.dirname(os.path.dirname(os.path.abspath(__file__))), ".scratch", "replay"), log)
    print("\n".join(log))
    for f in r[rec["obligation"]] or []:
        print("STILL FAILS:", f["goal"], "->", f["got"][1], "expected", f["expected"][1])
    return 1 if r[rec["obligation"]] else 0
