"""Structural table obligations (S): facts read off the real text by token patterns and, where a
semantic statement is needed, closed by a generated Verus lemma. A table row that no longer matches
its recogniser is UNDECIDED (lost anchor); a row that matches and says the wrong thing is a failed
obligation."""
import os, re, subprocess, json, sys
HERE = os.path.dirname(os.path.abspath(__file__))
ROOT = os.path.dirname(HERE)
sys.path.insert(0, HERE)
from rustlex import lex, text, is_sig, next_sig, prev_sig, match_close


def _sig(toks):
    return [t for t in toks if is_sig(t)]


def _find_arm(toks, variant):
    """tokens of the block of `Instruction::<variant>(..) => { ... }`; returns (param names, block tokens)"""
    for i, t in enumerate(toks):
        if t.kind == "id" and t.text == variant and toks[prev_sig(toks, i - 1)].text == ":":
            j = next_sig(toks, i + 1)
            if toks[j].text != "(":
                continue
            c = match_close(toks, j)
            params = [x.text for x in toks[j + 1:c] if x.kind == "id"]
            k = next_sig(toks, c + 1)
            if not (toks[k].text == "=" and toks[k + 1].text == ">"):
                continue
            b = next_sig(toks, k + 2)
            if toks[b].text != "{":
                continue
            return params, toks[b:match_close(toks, b) + 1]
    return None, None


CMP_EXPECT = {"Equal": {"Equal"}, "NotEqual": {"Less", "Greater"}, "LessThan": {"Less"}, "LessThanOrEqual": {"Less", "Equal"},
              "GreaterThan": {"Greater"}, "GreaterThanOrEqual": {"Greater", "Equal"}}


def check_cmp_instrs(repo, scratch):
    res = {"obligations": [], "failed": [], "undecided": [], "assumptions": [
        "[structural:cmp_instrs] get_number/try_or_throw!, increment_call_count!, backtrack() are taken at face value; only operand order, the use of Number::cmp and the success set of Ordering are decided"],
        "functions": [{"name": "Machine::dispatch_loop arms {Call,Execute,DefaultCall,DefaultExecute}Number{Equal,NotEqual,LessThan,LessThanOrEqual,GreaterThan,GreaterThanOrEqual}",
                       "file": "src/machine/dispatch.rs", "engine": "structural+verus", "unit": "cmp_instrs", "under_contract": True}]}
    p = os.path.join(repo, "src/machine/dispatch.rs")
    if not os.path.exists(p):
        res["undecided"].append("cmp_instrs: src/machine/dispatch.rs missing"); return res
    toks = lex(open(p, encoding="utf-8").read())
    gen = ["use vstd::prelude::*;\nuse core::cmp::Ordering;\nverus! {\n"]
    lemmas = []
    for pre in ("Call", "Execute", "DefaultCall", "DefaultExecute"):
        for pred, expect in CMP_EXPECT.items():
            v = "%sNumber%s" % (pre, pred)
            base = "structural::cmp_instrs::%s" % v
            obs = [base + "::operands", base + "::ordering_set", base + "::control"]
            res["obligations"] += obs
            params, blk = _find_arm(toks, v)
            if blk is None or len(params) != 2:
                res["undecided"].append("%s: arm not found / unexpected parameter list (lost anchor)" % base); continue
            s = " ".join(t.text for t in _sig(blk)).replace(": :", "::").replace("= >", "=>").replace("+ =", "+=")
            m1 = re.search(r"let n1 = try_or_throw ! \( self \. machine_st , self \. machine_st \. get_number \( (\w+) \) , continue \) ;", s)
            m2 = re.search(r"let n2 = try_or_throw ! \( self \. machine_st , self \. machine_st \. get_number \( (\w+) \) , continue \) ;", s)
            mm = re.search(r"match (\w+) \. cmp \( & (\w+) \) \{ (.*?) => \{ (.*?) \} _ => \{ (.*?) \} \}", s)
            if not (m1 and m2 and mm):
                res["undecided"].append("%s: arm no longer matches the recogniser (lost anchor)" % base); continue
            if not (m1.group(1) == params[0] and m2.group(1) == params[1] and mm.group(1) == "n1" and mm.group(2) == "n2"):
                res["failed"].append({"obligation": base + "::operands", "engine": "structural", "message": "operands are not (first, second) in order: n1<-%s n2<-%s compared as %s.cmp(&%s)" % (m1.group(1), m2.group(1), mm.group(1), mm.group(2)), "source": v, "at": "src/machine/dispatch.rs"})
            pat, blk1, blk2 = mm.group(3), mm.group(4), mm.group(5)
            adv = "self . machine_st . p += 1" if "Call" in pre else "self . machine_st . p = self . machine_st . cp"
            def kind(b):
                a_, bt = adv in b, "self . machine_st . backtrack ( )" in b
                return "advance" if (a_ and not bt) else "backtrack" if (bt and not a_) else None
            k1, k2 = kind(blk1), kind(blk2)
            if k1 is None or k2 is None or k1 == k2:
                res["failed"].append({"obligation": base + "::control", "engine": "structural", "message": "the two continuations are not one `advance p` and one `backtrack`: first={%s} second={%s}" % (blk1, blk2), "source": v, "at": "src/machine/dispatch.rs"})
                continue
            if not re.fullmatch(r"Ordering :: \w+( \| Ordering :: \w+)*", pat):
                res["undecided"].append("%s: pattern `%s` not recognised" % (base, pat)); continue
            gen.append("pub open spec fn succ_%s(o: Ordering) -> bool { match o { %s => %s, _ => %s } }\n" % (
                v, pat.replace(" ", ""), "true" if k1 == "advance" else "false", "true" if k2 == "advance" else "false"))
            exp = " || ".join("(o is %s)" % e for e in sorted(expect))
            gen.append("pub proof fn set_%s(o: Ordering) ensures succ_%s(o) == (%s) { }\n" % (v, v, exp))
            lemmas.append(v)
    # the six predicates agree with each other on every Ordering (exactly one of <, =:=, > holds)
    for pre in ("Call", "Execute", "DefaultCall", "DefaultExecute"):
        need = ["%sNumber%s" % (pre, p_) for p_ in CMP_EXPECT]
        if all(n in lemmas for n in need):
            gen.append(("pub proof fn agree_%s(o: Ordering) ensures\n"
                        "  (succ_%sNumberLessThan(o) as int) + (succ_%sNumberEqual(o) as int) + (succ_%sNumberGreaterThan(o) as int) == 1,\n"
                        "  succ_%sNumberNotEqual(o) == !succ_%sNumberEqual(o),\n"
                        "  succ_%sNumberLessThanOrEqual(o) == (succ_%sNumberLessThan(o) || succ_%sNumberEqual(o)),\n"
                        "  succ_%sNumberGreaterThanOrEqual(o) == (succ_%sNumberGreaterThan(o) || succ_%sNumberEqual(o)) { }\n") % ((pre,) * 12))
            res["obligations"].append("structural::cmp_instrs::agree_%s" % pre)
    gen.append("} // verus!\nfn main() {}\n")
    os.makedirs(scratch, exist_ok=True)
    gp = os.path.join(scratch, "cmp_instrs.rs")
    open(gp, "w").write("".join(gen))
    pr = subprocess.run(["verus", gp, "--output-json", "--error-format=json", "--multiple-errors", "30"], capture_output=True, text=True, cwd=scratch)
    res["cmd"] = "verus cmp_instrs.rs (generated from src/machine/dispatch.rs)"
    try:
        js = json.loads(pr.stdout)
        ok = js["verification-results"]
    except Exception:
        res["undecided"].append("cmp_instrs: generated Verus file did not verify/compile: " + pr.stderr[-400:]); return res
    if not ok.get("success"):
        lines = "".join(gen).split("\n")
        for line in pr.stderr.split("\n"):
            if not line.startswith("{"):
                continue
            try:
                dj = json.loads(line)
            except Exception:
                continue
            if dj.get("level") == "error" and "postcondition" in dj.get("message", ""):
                ln = [s_ for s_ in dj["spans"] if s_.get("is_primary")][0]["line_start"]
                m = re.search(r"proof fn (set|agree)_(\w+)", lines[ln - 1])
                if m and m.group(1) == "set":
                    res["failed"].append({"obligation": "structural::cmp_instrs::%s::ordering_set" % m.group(2), "engine": "verus", "message": "the arm succeeds on a different set of Orderings than its predicate: " + lines[ln - 2].strip(), "source": m.group(2), "at": "src/machine/dispatch.rs"})
                elif m:
                    res["failed"].append({"obligation": "structural::cmp_instrs::agree_%s" % m.group(2), "engine": "verus", "message": "the six comparison instructions disagree with each other", "source": m.group(2), "at": "src/machine/dispatch.rs"})
        if not res["failed"]:
            res["undecided"].append("cmp_instrs: verus failed without a mapped diagnostic")
    return res


def _fn_text(repo, path, name):
    from rustlex import find_fns
    p = os.path.join(repo, path)
    if not os.path.exists(p):
        return None
    toks = lex(open(p, encoding="utf-8").read())
    its = find_fns(toks, name)
    if len(its) != 1:
        return None
    blk = toks[its[0].body_open:its[0].body_close + 1]
    return " ".join(t.text for t in _sig(blk)).replace(": :", "::").replace("= >", "=>")


def check_switch_routes(repo, scratch):
    """Which first-argument kinds are looked up by key in the constant index (route `c`)?
    Only kinds whose keys are canonical (unit indexkey) may be; big integers and rationals, whose
    keys are arena addresses, must take the try-every-clause route `v`."""
    base = "structural::switch_routes::"
    res = {"obligations": [base + k for k in ("var_to_v", "list_to_l", "small_const_to_c", "atom_to_c", "bignum_to_v")], "failed": [], "undecided": [],
           "assumptions": ["[structural:switch_routes] the variable route `v` tries every clause in textual order and head unification selects (C10/C07 territory, not decided here)"],
           "functions": [{"name": "MachineState::select_switch_on_term_index", "file": "src/machine/dispatch.rs", "engine": "structural", "unit": "switch_routes", "under_contract": True}]}
    s = _fn_text(repo, "src/machine/dispatch.rs", "select_switch_on_term_index")
    if s is None:
        res["undecided"].append(base + ": select_switch_on_term_index not found (lost anchor)"); return res
    T = "HeapCellValueTag :: "
    def route(pattern):
        m = re.search(pattern + r" => \{ (\w+) \}", s)
        return m.group(1) if m else None
    table = [
        ("var_to_v", r"\( %sVar \| %sStackVar \| %sAttrVar \)" % (T, T, T), "v"),
        ("list_to_l", r"\( %sPStrLoc \| %sLis \)" % (T, T), "l"),
        ("small_const_to_c", r"\( %sFixnum \| %sCutPoint \| %sF64Offset \)" % (T, T, T), "c"),
        ("bignum_to_v", r"ArenaHeaderTag :: Rational \| ArenaHeaderTag :: Integer", "v"),
    ]
    for name, pat, want in table:
        got = route(pat)
        if got is None:
            res["undecided"].append(base + name + ": arm not recognised (lost anchor)")
        elif got != want:
            res["failed"].append({"obligation": base + name, "engine": "structural", "source": "select_switch_on_term_index", "at": "src/machine/dispatch.rs",
                                  "message": "first arguments of this kind are routed to `%s`, must be `%s`%s" % (got, want, " (big numbers are keyed by arena address in the constant index: equal values miss their key)" if name == "bignum_to_v" else "")})
    m = re.search(r"\( %sAtom , \( _name , arity \) \) => \{ debug_assert ! \( arity = = 0 \) ; (\w+) \}" % T, s)
    if not m:
        res["undecided"].append(base + "atom_to_c: arm not recognised (lost anchor)")
    elif m.group(1) != "c":
        res["failed"].append({"obligation": base + "atom_to_c", "engine": "structural", "source": "select_switch_on_term_index", "at": "src/machine/dispatch.rs", "message": "atoms routed to `%s`, must be `c`" % m.group(1)})
    return res


def _norm(s):
    return s.replace(": :", "::").replace("= >", "=>").replace("+ =", "+=")


def _kernel_call(text_, kernels):
    """first call `kernel ( ... )` of a known kernel in a normalised token string; returns (kernel, args string)"""
    best = None
    for k in kernels:
        for m in re.finditer(r"(?<![\w.])((?:\w+ :: )*)%s \(" % re.escape(k), text_):
            # balanced argument list
            i = m.end()
            d = 1
            j = i
            toks = text_[i:].split(" ")
            out = []
            for t in toks:
                if t in ("(", "[", "{"):
                    d += 1
                elif t in (")", "]", "}"):
                    d -= 1
                    if d == 0:
                        break
                out.append(t)
            # a path-qualified call (cmp::max, std::cmp::min, ...) is a different function from the kernel
            cand = (m.start(), (m.group(1) + k).replace(" ", ""), " ".join(out).strip())
            if best is None or cand[0] < best[0]:
                best = cand
    return (best[1], best[2]) if best else (None, None)


def _canon_args(a):
    a = re.sub(r"\b(n1|a1|r1)\b", "X1", a)
    a = re.sub(r"\b(n2|a2|r2)\b", "X2", a)
    a = re.sub(r"\bn\b", "X1", a)
    a = re.sub(r"atom ! \( \"[^\"]*\" \)", "ATOM", a)       # the culprit functor only affects the error context
    return a


def check_arith_tables(repo, scratch):
    """C03: the compiled evaluator (get_*_instr -> Instruction -> *_instr) and the run-time evaluator
    (arith_eval_by_metacall) call the same kernel with the same operand order for every evaluable functor."""
    base = "structural::arith_tables::"
    res = {"obligations": [], "failed": [], "undecided": [], "assumptions": [
        "[structural:arith_tables] operand fetch (get_number/get_rational), try_or_throw*/drop_iter_on_err! plumbing and result storing are taken at face value; the kernels themselves are under contract in unit arith (C01/C02)",
        "[structural:arith_tables] the culprit atom passed to pow (`**` vs `is`) is ignored: it only changes the error context, not the formal error term"],
        "functions": [{"name": "ArithmeticEvaluator::get_unary_instr / get_binary_instr / push_literal", "file": "src/arithmetic.rs", "engine": "structural", "unit": "arith_tables", "under_contract": True},
                      {"name": "Machine dispatch arms for arithmetic instructions and MachineState::*_instr", "file": "src/machine/dispatch.rs", "engine": "structural", "unit": "arith_tables", "under_contract": True},
                      {"name": "MachineState::arith_eval_by_metacall", "file": "src/machine/arithmetic_ops.rs", "engine": "structural", "unit": "arith_tables", "under_contract": True}]}
    ar = os.path.join(repo, "src/arithmetic.rs"); dp = os.path.join(repo, "src/machine/dispatch.rs"); ops = os.path.join(repo, "src/machine/arithmetic_ops.rs")
    for p in (ar, dp, ops):
        if not os.path.exists(p):
            res["undecided"].append(base + ": %s missing" % p); return res
    from rustlex import find_fns
    # (a) functor -> Instruction variant
    table_a = {}
    for fn, arity in (("get_unary_instr", 1), ("get_binary_instr", 2)):
        t = _fn_text(repo, "src/arithmetic.rs", fn)
        if t is None:
            res["undecided"].append(base + ": %s not found" % fn); return res
        for m in re.finditer(r'atom ! \( "((?:[^"\\]|\\.)*)" \) => Ok \( Instruction :: (\w+) \( ([\w , ]+) \) \)', t):
            args = [x.strip() for x in m.group(3).split(",")]
            want = ["a1", "t"] if arity == 1 else ["a1", "a2", "t"]
            table_a[(m.group(1), arity)] = (m.group(2), args == want)
    # (b) Instruction variant -> *_instr method (dispatch arms)
    dtoks = lex(open(dp, encoding="utf-8").read())
    dtext = _norm(" ".join(t.text for t in _sig(dtoks)))
    # (d) run-time table
    rt = _fn_text(repo, "src/machine/arithmetic_ops.rs", "arith_eval_by_metacall")
    if rt is None:
        res["undecided"].append(base + ": arith_eval_by_metacall not found"); return res
    # split the run-time function into its arity-2 and arity-1 sections
    i2 = rt.find("if arity = = 2"); i1 = rt.find("else if arity = = 1"); i0 = rt.find("else if arity = = 0")
    if min(i2, i1, i0) < 0 or not (i2 < i1 < i0):
        res["undecided"].append(base + ": arith_eval_by_metacall sections not recognised"); return res
    sect = {2: rt[i2:i1], 1: rt[i1:i0]}
    rt_arms = {}
    for ar_, tx in sect.items():
        parts = re.split(r'atom ! \( "((?:[^"\\]|\\.)*)" \) =>', tx)
        for k in range(1, len(parts) - 1, 2):
            rt_arms[(parts[k], ar_)] = parts[k + 1]
    kernels = ["add", "sub", "mul", "div", "pow", "int_pow", "max", "min", "rdiv", "idiv", "int_floor_div", "shr", "shl", "and", "or", "xor", "modulus", "remainder",
               "atan2", "gcd", "neg", "cos", "sin", "tan", "float_fractional_part", "float_integer_part", "sqrt", "log", "exp", "acos", "asin", "atan", "abs", "float",
               "truncate", "round", "ceiling", "floor", "bitwise_complement"]
    for key in sorted(set(table_a) | set(rt_arms)):
        name, arity = key
        ob = base + "%s/%d" % (name, arity)
        res["obligations"].append(ob)
        if key not in table_a or key not in rt_arms:
            res["failed"].append({"obligation": ob, "engine": "structural", "source": name, "at": "src/arithmetic.rs / src/machine/arithmetic_ops.rs",
                                  "message": "evaluable functor %s/%d is known to only one of the two evaluators (compiled: %s, run-time: %s)" % (name, arity, key in table_a, key in rt_arms)})
            continue
        variant, order_ok = table_a[key]
        if not order_ok:
            res["failed"].append({"obligation": ob, "engine": "structural", "source": name, "at": "src/arithmetic.rs", "message": "get_*_instr passes the operands of %s/%d in a different order" % key}); continue
        m = re.search(r"& Instruction :: %s \( ref a1 , (ref a2 , )?t \) => (?:\{ )?self \. machine_st \. (\w+) \( a1 , (a2 , )?t \)" % variant, dtext)
        if not m or bool(m.group(1)) != (arity == 2) or bool(m.group(3)) != (arity == 2):
            res["undecided"].append(ob + ": dispatch arm for Instruction::%s not recognised" % variant); continue
        body = _fn_text(repo, "src/machine/dispatch.rs", m.group(2))
        if body is None:
            res["undecided"].append(ob + ": %s not found" % m.group(2)); continue
        if not re.search(r"let (n1|r1|n) = try_or_throw ! \( self , self \. get_(number|rational) \( a1", body) or (arity == 2 and not re.search(r"let (n2|r2) = try_or_throw ! \( self , self \. get_(number|rational) \( a2", body)):
            res["failed"].append({"obligation": ob, "engine": "structural", "source": m.group(2), "at": "src/machine/dispatch.rs", "message": "%s does not fetch its operands from (a1, a2) in order" % m.group(2)}); continue
        arm = rt_arms[key]
        if name == "+" and arity == 1:
            ok = "interms . push ( a1 )" in arm and "HeapCellValue :: from ( ( n1 ," in body
            if not ok:
                res["failed"].append({"obligation": ob, "engine": "structural", "source": name, "at": "dispatch.rs / arithmetic_ops.rs", "message": "unary plus is not the identity on both paths"})
            continue
        if name == "sign" and arity == 1:
            ok = "a1 . sign ( )" in arm and re.search(r"\bn \. sign \( \)|n1 \. sign \( \)", body)
            if not ok:
                res["failed"].append({"obligation": ob, "engine": "structural", "source": name, "at": "dispatch.rs / arithmetic_ops.rs", "message": "sign/1 does not call Number::sign on both paths"})
            continue
        k1, a1_ = _kernel_call(body, kernels)
        k2, a2_ = _kernel_call(arm, kernels)
        # the run-time arm must BE the kernel call (inside the known plumbing), not an expression that merely contains it:
        # `interms.push( [Number::Float(OrderedFloat(] [drop_iter_on_err!(self, iter,] [try_numeric_result!(] KERNEL(..) ... )`
        if name != "rdiv" and k2 is not None:
            a_ = arm.strip()
            if a_.startswith("{ "):
                a_ = a_[2:]
            shape_ok = a_.startswith("interms . push ( ")
            a_ = a_[len("interms . push ( "):] if shape_ok else a_
            for pre in ("Number :: Float ( OrderedFloat ( ", "drop_iter_on_err ! ( self , iter , ", "try_numeric_result ! ( "):
                if a_.startswith(pre):
                    a_ = a_[len(pre):]
            if not (shape_ok and re.match(r"(?:\w+ :: )*%s \( " % re.escape(k2.split("::")[-1]), a_)):
                res["undecided"].append(ob + ": the run-time arm is not a plain kernel call (shape not recognised): %s" % arm.strip()[:120]); continue
        if k1 is None or k2 is None:
            res["undecided"].append(ob + ": kernel call not recognised (compiled: %s, run-time: %s)" % (k1, k2)); continue
        if k1 != k2 or _canon_args(a1_) != _canon_args(a2_):
            res["failed"].append({"obligation": ob, "engine": "structural", "source": name, "at": "src/machine/dispatch.rs / src/machine/arithmetic_ops.rs",
                                  "message": "the two evaluators disagree for %s/%d: compiled path calls %s(%s), run-time path calls %s(%s)" % (name, arity, k1, a1_, k2, a2_)})
            continue
        # same result wrapping: Float(OrderedFloat(..)) on both or on neither
        w1 = "Number :: Float ( OrderedFloat (" in body
        w2 = "Number :: Float ( OrderedFloat (" in arm
        if w1 != w2:
            res["failed"].append({"obligation": ob, "engine": "structural", "source": name, "at": "dispatch.rs / arithmetic_ops.rs", "message": "result wrapping differs (Float(OrderedFloat(..)) on one path only)"})
    # (e) constants
    pl = _fn_text(repo, "src/arithmetic.rs", "push_literal")
    for cname, cexpr in (("pi", "PI"), ("e", "E"), ("epsilon", "EPSILON")):
        ob = base + "%s/0" % cname
        res["obligations"].append(ob)
        a_ok = pl is not None and re.search(r'atom ! \( "%s" \) => interm \. push \( ArithmeticTerm :: Number \( Number :: Float \( OrderedFloat \( (std :: )?f64 :: (consts :: )?%s' % (cname, cexpr), pl)
        b_ok = re.search(r'atom ! \( "%s" \) => \{ interms \. push \( Number :: Float \( OrderedFloat \( f64 :: (consts :: )?%s' % (cname, cexpr), rt)
        if not a_ok or not b_ok:
            if (pl and ('"%s"' % cname) in pl) and ('"%s"' % cname) in rt:
                res["failed"].append({"obligation": ob, "engine": "structural", "source": cname, "at": "src/arithmetic.rs / arithmetic_ops.rs", "message": "constant %s is not the same f64 constant on both paths" % cname})
            else:
                res["undecided"].append(ob + ": constant arm not recognised")
    return res


def check_atom_guards(repo, scratch):
    """C21: the run-time interner and the build-time indexer decide 'inline or table' with the same guard
    and the same length limit (token-identical text)."""
    base = "structural::atom_guards::"
    res = {"obligations": [base + "same_guard", base + "same_max_len"], "failed": [], "undecided": [], "assumptions": [],
           "functions": [{"name": "AtomTable::build_with (guard)", "file": "src/atom_table.rs", "engine": "structural", "unit": "atom_guards", "under_contract": True},
                         {"name": "static_string_index (guard)", "file": "build/static_string_indexing.rs", "engine": "structural", "unit": "atom_guards", "under_contract": True}]}
    from rustlex import find_fns, find_blocks
    pa, pb = os.path.join(repo, "src/atom_table.rs"), os.path.join(repo, "build/static_string_indexing.rs")
    if not (os.path.exists(pa) and os.path.exists(pb)):
        res["undecided"].append(base + ": source files missing"); return res
    sa, sb = open(pa, encoding="utf-8").read(), open(pb, encoding="utf-8").read()
    ta = lex(sa)
    blocks = find_blocks(ta, "impl", r"impl AtomTable")
    ga = None
    for b in blocks:
        for it in find_fns(ta, "build_with", b.body_open, b.body_close):
            t = _norm(" ".join(x.text for x in _sig(ta[it.body_open:it.body_close + 1])))
            m = re.search(r"\{ if (.*?) \{ return Atom :: new_inlined \( string \) ; \}", t)
            if m:
                ga = m.group(1)
    tb = _fn_text(repo, "build/static_string_indexing.rs", "static_string_index")
    gb = None
    if tb:
        m = re.search(r"\{ if (.*?) \{ let mut string_buf", tb)
        if m:
            gb = m.group(1)
    if ga is None or gb is None:
        res["undecided"].append(base + "same_guard: guard expression not recognised (lost anchor)")
    elif sorted(x.strip() for x in ga.split("& &")) != sorted(x.strip() for x in gb.split("& &")):
        # the two guards are conjunctions; their order does not matter. Two different conjunct sets can still denote the same
        # predicate, so the failure needs an atom that the oracle shows to be split in two (tentative otherwise)
        res["failed"].append({"obligation": base + "same_guard", "engine": "structural", "source": "AtomTable::build_with / static_string_index", "at": "src/atom_table.rs, build/static_string_indexing.rs",
                              "tentative": "shape obligation: the two guards are compared as sets of conjuncts",
                              "message": "inline-atom guards differ: run time `%s`, build time `%s`" % (ga, gb)})
    ma = re.search(r"const\s+INLINED_ATOM_MAX_LEN\s*:\s*usize\s*=\s*(\d+)\s*;", sa)
    mb = re.search(r"const\s+INLINED_ATOM_MAX_LEN\s*:\s*usize\s*=\s*(\d+)\s*;", sb)
    if not (ma and mb):
        res["undecided"].append(base + "same_max_len: constant not found (lost anchor)")
    elif ma.group(1) != mb.group(1):
        res["failed"].append({"obligation": base + "same_max_len", "engine": "structural", "source": "INLINED_ATOM_MAX_LEN", "at": "src/atom_table.rs, build/static_string_indexing.rs",
                              "message": "INLINED_ATOM_MAX_LEN is %s at run time and %s at build time" % (ma.group(1), mb.group(1))})
    return res


def check_atom_ord(repo, scratch):
    """C21/C13: atoms order by their text (code-point sequence), not by table index."""
    base = "structural::atom_ord::"
    res = {"obligations": [base + "cmp_by_text"], "failed": [], "undecided": [], "assumptions": ["[structural:atom_ord] str::cmp is byte-wise lexicographic = code-point order for UTF-8 (std)"],
           "functions": [{"name": "Ord for Atom", "file": "src/atom_table.rs", "engine": "structural", "unit": "atom_ord", "under_contract": True}]}
    from rustlex import find_fns, find_blocks
    pa = os.path.join(repo, "src/atom_table.rs")
    if not os.path.exists(pa):
        res["undecided"].append(base + ": src/atom_table.rs missing"); return res
    ta = lex(open(pa, encoding="utf-8").read())
    blocks = find_blocks(ta, "impl", r"impl Ord for Atom")
    body = None
    for b in blocks:
        for it in find_fns(ta, "cmp", b.body_open, b.body_close):
            body = _norm(" ".join(x.text for x in _sig(ta[it.body_open:it.body_close + 1])))
    if body is None:
        res["undecided"].append(base + "cmp_by_text: impl Ord for Atom not found (lost anchor)")
    elif body == "{ self . as_str ( ) . cmp ( & * other . as_str ( ) ) }":
        pass
    elif re.search(r"\b(index|flat_index)\b[^;{}]*\. cmp \(", body):
        res["failed"].append({"obligation": base + "cmp_by_text", "engine": "structural", "source": "Ord for Atom", "at": "src/atom_table.rs", "message": "atoms (or some of them) are ordered by their index/encoding instead of their text: " + body[:300]})
    else:
        res["undecided"].append(base + "cmp_by_text: body not recognised: " + body[:120])
    return res


def check_lookahead(repo, scratch):
    """C06: the look-ahead that skips clauses which cannot match (Machine::next_clause_applicable) must
    decide a constant first argument by unification (value comparison across encodings), never by cell
    equality, and must use the same switch routing as the dispatch loop."""
    base = "structural::lookahead::"
    res = {"obligations": [base + "get_constant_by_unification", base + "same_switch_routing"], "failed": [], "undecided": [],
           "assumptions": ["[structural:lookahead] unify! compares numbers by value (unit unifynum, C05)"],
           "functions": [{"name": "Machine::next_clause_applicable", "file": "src/machine/mod.rs", "engine": "structural", "unit": "lookahead", "under_contract": True}]}
    t = _fn_text(repo, "src/machine/mod.rs", "next_clause_applicable")
    if t is None:
        res["undecided"].append(base + ": next_clause_applicable not found (lost anchor)"); return res
    m = re.search(r"& Instruction :: GetConstant \( Level :: Shallow , lit , RegType :: Temp \( t \) \) => \{ (.*?) \} & Instruction :: GetList", t)
    if not m:
        res["undecided"].append(base + "get_constant_by_unification: arm not recognised (lost anchor)")
    else:
        arm = m.group(1)
        by_unify = "unify ! ( self . machine_st , cell , lit )" in arm and "if self . machine_st . fail { self . machine_st . fail = false ; return false ; }" in arm
        by_eq = re.search(r"cell = = lit|lit = = cell|cell ! = lit|lit ! = cell", arm)
        if by_eq:
            res["failed"].append({"obligation": base + "get_constant_by_unification", "engine": "structural", "source": "next_clause_applicable", "at": "src/machine/mod.rs",
                                  "message": "the clause look-ahead compares the first-argument cell with the literal by cell equality: equal numbers in different encodings (big integers, rationals) make it skip matching clauses"})
        elif not by_unify:
            res["undecided"].append(base + "get_constant_by_unification: arm body not recognised")
    if "self . machine_st . select_switch_on_term_index ( cell , v , c , l , s )" not in t:
        if "select_switch_on_term_index" in t:
            res["failed"].append({"obligation": base + "same_switch_routing", "engine": "structural", "source": "next_clause_applicable", "at": "src/machine/mod.rs",
                                  "message": "the look-ahead passes the switch targets to select_switch_on_term_index in a different order than (v, c, l, s)"})
        else:
            res["undecided"].append(base + "same_switch_routing: call not recognised")
    return res


def check_dynamic_dead_end(repo, scratch):
    """C06 (dynamic predicates): the three dispatch arms that walk a chain of dynamic clauses
    (DynamicElse, DynamicInternalElse, DynamicIndexedChoice) may be re-entered by backtracking at a clause
    with no living successor (the clause look-ahead skips non-matching clauses without looking at their
    death stamps). In that case the choice point must be removed before failing; failing alone makes
    backtrack() return to the same instruction forever."""
    base = "structural::dynamic_dead_end::"
    names = ["DynamicElse", "DynamicInternalElse", "DynamicIndexedChoice"]
    res = {"obligations": [base + n for n in names], "failed": [], "undecided": [],
           "assumptions": ["[structural:dynamic_dead_end] trust_me() removes the top choice point (read, not verified)"],
           "functions": [{"name": "Machine::dispatch_loop (arms DynamicElse, DynamicInternalElse, DynamicIndexedChoice)", "file": "src/machine/dispatch.rs", "engine": "structural", "unit": "dynamic_dead_end", "under_contract": True}]}
    path = os.path.join(repo, "src/machine/dispatch.rs")
    try:
        t = " ".join(x.text for x in _sig(lex(open(path, encoding="utf-8").read())))
    except OSError:
        res["undecided"].append(base + ": dispatch.rs not found"); return res
    def _n(src):
        return " ".join(x.text for x in _sig(lex(src)))
    starts = {"DynamicElse": _n("&Instruction::DynamicElse(..) => {"), "DynamicInternalElse": _n("&Instruction::DynamicInternalElse(..) => {"),
              "DynamicIndexedChoice": _n("IndexingLine::DynamicIndexedChoice(_) => { let p = self.machine_st.p; match self.find_living_dynamic(")}
    end = _n("self.machine_st.dynamic_mode = FirstOrNext::Next;")
    good = _n("None => { if let FirstOrNext::Next = self.machine_st.dynamic_mode { self.trust_me(); } self.machine_st.fail = true; } }") + " " + end
    bad = _n("None => { self.machine_st.fail = true; } }") + " " + end
    for n in names:
        i = t.find(starts[n])
        if i < 0:
            res["undecided"].append(base + n + ": arm not recognised (lost anchor)"); continue
        j = t.find(end, i)
        if j < 0:
            res["undecided"].append(base + n + ": end of arm not recognised (lost anchor)"); continue
        arm = t[i:j + len(end)]
        if arm.endswith(good):
            continue
        if arm.endswith(bad):
            res["failed"].append({"obligation": base + n, "engine": "structural", "source": "dispatch_loop, arm " + n, "at": "src/machine/dispatch.rs",
                                  "message": "re-entered by backtracking with no living clause left, the arm only sets fail: the choice point stays and backtrack() re-enters the arm forever (call never returns)"})
        else:
            res["undecided"].append(base + n + ": dead-end branch not recognised")
    return res


def check_arith_interm(repo, scratch):
    """C03 (compiled path): the value of every compound (sub)expression is written to a register taken from the pool of
    free temporaries (contract regalloc::DebrayAllocator_alloc_reg_to_non_var: not in use before, in use after) -- never
    to the argument register of the goal, which for an inlined comparison may still hold a clause variable."""
    base = "structural::arith_interm::"
    res = {"obligations": [base + "deep_level", base + "fresh_from_pool"], "failed": [], "undecided": [],
           "assumptions": ["[structural:arith_interm] `in_use` contains the register of every live temporary variable of the chunk (allocator invariant, read, not verified)"],
           "functions": [{"name": "ArithmeticEvaluator::compile_is (Op arm)", "file": "src/arithmetic.rs", "engine": "structural", "unit": "arith_interm", "under_contract": True},
                         {"name": "DebrayAllocator::mark_non_var (non-shallow arm)", "file": "src/debray_allocator.rs", "engine": "structural", "unit": "arith_interm", "under_contract": True}]}
    t = _fn_text(repo, "src/arithmetic.rs", "compile_is")
    if not t:
        res["undecided"].append(base + "deep_level: compile_is not found (lost anchor)")
    else:
        calls = re.findall(r"mark_non_var :: < QueryInstruction > \( (.*?) ,", t)
        if not calls:
            res["undecided"].append(base + "deep_level: no mark_non_var call in compile_is (lost anchor)")
        elif any(c != "Level :: Deep" for c in calls):
            res["failed"].append({"obligation": base + "deep_level", "engine": "structural", "source": "ArithmeticEvaluator::compile_is", "at": "src/arithmetic.rs",
                                  "tentative": "shape obligation: another way of keeping intermediates away from live registers would also be right",
                                  "message": "an operator cell is marked with level `%s`: at Level::Shallow the value goes to the goal's argument register, which an inlined comparison does not evacuate" % [c for c in calls if c != "Level :: Deep"][0]})
    t = _fn_text(repo, "src/debray_allocator.rs", "mark_non_var")
    if not t:
        res["undecided"].append(base + "fresh_from_pool: mark_non_var not found (lost anchor)")
    elif " ".join(x.text for x in _sig(lex("_ if r.reg_num() == 0 => RegType::Temp(self.alloc_reg_to_non_var()),"))).replace(": :", "::").replace("= >", "=>") not in t:
        res["undecided"].append(base + "fresh_from_pool: the arm taking a fresh register is not recognised (lost anchor)")
    return res


CHECKS = {"arith_interm": check_arith_interm, "dynamic_dead_end": check_dynamic_dead_end, "lookahead": check_lookahead, "atom_ord": check_atom_ord, "atom_guards": check_atom_guards, "cmp_instrs": check_cmp_instrs, "switch_routes": check_switch_routes, "arith_tables": check_arith_tables}


def file_fn_hashes(repo, files):
    """(file::fn#ordinal -> hash of the significant-token text) for every function item of the given source files (nested
    functions are part of their parent). Used for the peripheral-change note: a property's anchor files contain many functions
    that no contract and no watch entry names."""
    import hashlib
    out = {}
    for path in files:
        p = os.path.join(repo, path)
        if not os.path.exists(p):
            out[path + "::<file>"] = None; continue
        if not path.endswith(".rs"):
            # library code written in Prolog: the text without comment lines and layout
            body = "\n".join(" ".join(l_.split()) for l_ in open(p, encoding="utf-8").read().split("\n") if l_.strip() and not l_.lstrip().startswith("%"))
            out[path + "::<text>"] = hashlib.sha256(body.encode()).hexdigest()[:16]
            continue
        toks = lex(open(p, encoding="utf-8").read())
        seen = {}
        i, n = 0, len(toks)
        while i < n:
            t = toks[i]
            if t.kind == "id" and t.text == "fn":
                j = next_sig(toks, i + 1)
                if j < n and toks[j].kind == "id":
                    k, depth, body_open = j + 1, 0, None
                    while k < n:
                        tk = toks[k]
                        if tk.kind == "p":
                            if tk.text in "([":
                                depth += 1
                            elif tk.text in ")]":
                                depth -= 1
                            elif tk.text == "{" and depth == 0:
                                body_open = k; break
                            elif tk.text == ";" and depth == 0:
                                break
                        k += 1
                    if body_open is not None:
                        close = match_close(toks, body_open)
                        name = toks[j].text
                        seen[name] = seen.get(name, 0) + 1
                        blk = toks[i:close + 1]
                        out["%s::%s#%d" % (path, name, seen[name])] = hashlib.sha256(" ".join(x.text for x in _sig(blk)).encode()).hexdigest()[:16]
                        i = close
            i += 1
    return out


def watch_hashes(repo, items):
    """(key -> sha256 of the significant-token text) for functions that a property's mechanisms name but that are outside the
    verifier's reach. items: (file, fn name, optional impl-header regex, optional ordinal among same-named fns)."""
    import hashlib
    from rustlex import find_fns, find_blocks
    out = {}
    expanded = []
    for it in items:
        if it[1].startswith("re:"):
            # every function of the file whose name matches (e.g. the arithmetic instruction handlers `*_instr`)
            rx = re.compile(it[1][3:])
            for k_, h_ in file_fn_hashes(repo, [it[0]]).items():
                nm = k_.split("::")[-1]
                if rx.fullmatch(nm.split("#")[0]):
                    out["%s::%s" % (it[0], nm)] = h_
        else:
            expanded.append(it)
    for it in expanded:
        path, name = it[0], it[1]
        impl_rx = it[2] if len(it) > 2 else None
        key = "%s::%s%s" % (path, (impl_rx + "::") if impl_rx else "", name)
        p = os.path.join(repo, path)
        if not os.path.exists(p):
            out[key] = None; continue
        toks = lex(open(p, encoding="utf-8").read())
        lo, hi = 0, len(toks)
        if impl_rx:
            bl = find_blocks(toks, "impl", impl_rx)
            if len(bl) != 1:
                out[key] = None; continue
            lo, hi = bl[0].body_open, bl[0].body_close
        its = find_fns(toks, name, lo, hi)
        if len(its) != 1:
            out[key] = None; continue
        blk = toks[its[0].start:its[0].body_close + 1]
        out[key] = hashlib.sha256(" ".join(t.text for t in _sig(blk)).encode()).hexdigest()[:20]
    return out


def run(names, repo, scratch=None):
    scratch = scratch or os.path.join(ROOT, ".scratch", "structural")
    out = {"obligations": [], "failed": [], "undecided": [], "assumptions": [], "functions": [], "cmds": []}
    for n in names:
        r = CHECKS[n](repo, scratch)
        for k in ("obligations", "failed", "undecided", "assumptions", "functions"):
            out[k] += r.get(k, [])
        if r.get("cmd"):
            out["cmds"].append(r["cmd"])
    return out


if __name__ == "__main__":
    r = run(sys.argv[1:], "/repo")
    print(len(r["obligations"]), "obligations;", len(r["failed"]), "failed;", r["undecided"][:3])
    for f in r["failed"]:
        print("FAILED", f["obligation"], f["message"][:200])
