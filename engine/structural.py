"""Structural table obligations (S): facts read off the real text by token patterns and, where a
semantic statement is needed, closed by a generated Verus lemma. A table row that no longer matches
its recogniser is UNDECIDED (lost anchor); a row that matches and says the wrong thing is a failed
obligation."""
import os, re, subprocess, json, sys
HERE = os.path.dirname(os.path.abspath(__file__))
ROOT = os.path.dirname(HERE)
sys.path.insert(0, HERE)
from rustlex import lex, text, is_sig, next_sig, prev_sig, match_close


def _sig(toks):
    return [t for t in toks if is_sig(t)]


def _find_arm(toks, variant):
    """tokens of the block of `Instruction::<variant>(..) => { ... }`; returns (param names, block tokens)"""
    for i, t in enumerate(toks):
        if t.kind == "id" and t.text == variant and toks[prev_sig(toks, i - 1)].text == ":":
            j = next_sig(toks, i + 1)
            if toks[j].text != "(":
                continue
            c = match_close(toks, j)
            params = [x.text for x in toks[j + 1:c] if x.kind == "id"]
            k = next_sig(toks, c + 1)
            if not (toks[k].text == "=" and toks[k + 1].text == ">"):
                continue
            b = next_sig(toks, k + 2)
            if toks[b].text != "{":
                continue
            return params, toks[b:match_close(toks, b) + 1]
    return None, None


CMP_EXPECT = {"Equal": {"Equal"}, "NotEqual": {"Less", "Greater"}, "LessThan": {"Less"}, "LessThanOrEqual": {"Less", "Equal"},
              "GreaterThan": {"Greater"}, "GreaterThanOrEqual": {"Greater", "Equal"}}


def check_cmp_instrs(repo, scratch):
    res = {"obligations": [], "failed": [], "undecided": [], "assumptions": [
        "[structural:cmp_instrs] get_number/try_or_throw!, increment_call_count!, backtrack() are taken at face value; only operand order, the use of Number::cmp and the success set of Ordering are decided"],
        "functions": [{"name": "Machine::dispatch_loop arms {Call,Execute,DefaultCall,DefaultExecute}Number{Equal,NotEqual,LessThan,LessThanOrEqual,GreaterThan,GreaterThanOrEqual}",
                       "file": "src/machine/dispatch.rs", "engine": "structural+verus", "unit": "cmp_instrs", "under_contract": True}]}
    p = os.path.join(repo, "src/machine/dispatch.rs")
    if not os.path.exists(p):
        res["undecided"].append("cmp_instrs: src/machine/dispatch.rs missing"); return res
    toks = lex(open(p, encoding="utf-8").read())
    gen = ["use vstd::prelude::*;\nuse core::cmp::Ordering;\nverus! {\n"]
    lemmas = []
    for pre in ("Call", "Execute", "DefaultCall", "DefaultExecute"):
        for pred, expect in CMP_EXPECT.items():
            v = "%sNumber%s" % (pre, pred)
            base = "structural::cmp_instrs::%s" % v
            obs = [base + "::operands", base + "::ordering_set", base + "::control"]
            res["obligations"] += obs
            params, blk = _find_arm(toks, v)
            if blk is None or len(params) != 2:
                res["undecided"].append("%s: arm not found / unexpected parameter list (lost anchor)" % base); continue
            s = " ".join(t.text for t in _sig(blk)).replace(": :", "::").replace("= >", "=>").replace("+ =", "+=")
            m1 = re.search(r"let n1 = try_or_throw ! \( self \. machine_st , self \. machine_st \. get_number \( (\w+) \) , continue \) ;", s)
            m2 = re.search(r"let n2 = try_or_throw ! \( self \. machine_st , self \. machine_st \. get_number \( (\w+) \) , continue \) ;", s)
            mm = re.search(r"match (\w+) \. cmp \( & (\w+) \) \{ (.*?) => \{ (.*?) \} _ => \{ (.*?) \} \}", s)
            if not (m1 and m2 and mm):
                res["undecided"].append("%s: arm no longer matches the recogniser (lost anchor)" % base); continue
            if not (m1.group(1) == params[0] and m2.group(1) == params[1] and mm.group(1) == "n1" and mm.group(2) == "n2"):
                res["failed"].append({"obligation": base + "::operands", "engine": "structural", "message": "operands are not (first, second) in order: n1<-%s n2<-%s compared as %s.cmp(&%s)" % (m1.group(1), m2.group(1), mm.group(1), mm.group(2)), "source": v, "at": "src/machine/dispatch.rs"})
            pat, blk1, blk2 = mm.group(3), mm.group(4), mm.group(5)
            adv = "self . machine_st . p += 1" if "Call" in pre else "self . machine_st . p = self . machine_st . cp"
            def kind(b):
                a_, bt = adv in b, "self . machine_st . backtrack ( )" in b
                return "advance" if (a_ and not bt) else "backtrack" if (bt and not a_) else None
            k1, k2 = kind(blk1), kind(blk2)
            if k1 is None or k2 is None or k1 == k2:
                res["failed"].append({"obligation": base + "::control", "engine": "structural", "message": "the two continuations are not one `advance p` and one `backtrack`: first={%s} second={%s}" % (blk1, blk2), "source": v, "at": "src/machine/dispatch.rs"})
                continue
            if not re.fullmatch(r"Ordering :: \w+( \| Ordering :: \w+)*", pat):
                res["undecided"].append("%s: pattern `%s` not recognised" % (base, pat)); continue
            gen.append("pub open spec fn succ_%s(o: Ordering) -> bool { match o { %s => %s, _ => %s } }\n" % (
                v, pat.replace(" ", ""), "true" if k1 == "advance" else "false", "true" if k2 == "advance" else "false"))
            exp = " || ".join("(o is %s)" % e for e in sorted(expect))
            gen.append("pub proof fn set_%s(o: Ordering) ensures succ_%s(o) == (%s) { }\n" % (v, v, exp))
            lemmas.append(v)
    # the six predicates agree with each other on every Ordering (exactly one of <, =:=, > holds)
    for pre in ("Call", "Execute", "DefaultCall", "DefaultExecute"):
        need = ["%sNumber%s" % (pre, p_) for p_ in CMP_EXPECT]
        if all(n in lemmas for n in need):
            gen.append(("pub proof fn agree_%s(o: Ordering) ensures\n"
                        "  (succ_%sNumberLessThan(o) as int) + (succ_%sNumberEqual(o) as int) + (succ_%sNumberGreaterThan(o) as int) == 1,\n"
                        "  succ_%sNumberNotEqual(o) == !succ_%sNumberEqual(o),\n"
                        "  succ_%sNumberLessThanOrEqual(o) == (succ_%sNumberLessThan(o) || succ_%sNumberEqual(o)),\n"
                        "  succ_%sNumberGreaterThanOrEqual(o) == (succ_%sNumberGreaterThan(o) || succ_%sNumberEqual(o)) { }\n") % ((pre,) * 12))
            res["obligations"].append("structural::cmp_instrs::agree_%s" % pre)
    gen.append("} // verus!\nfn main() {}\n")
    os.makedirs(scratch, exist_ok=True)
    gp = os.path.join(scratch, "cmp_instrs.rs")
    open(gp, "w").write("".join(gen))
    pr = subprocess.run(["verus", gp, "--output-json", "--error-format=json", "--multiple-errors", "30"], capture_output=True, text=True, cwd=scratch)
    res["cmd"] = "verus cmp_instrs.rs (generated from src/machine/dispatch.rs)"
    try:
        js = json.loads(pr.stdout)
        ok = js["verification-results"]
    except Exception:
        res["undecided"].append("cmp_instrs: generated Verus file did not verify/compile: " + pr.stderr[-400:]); return res
    if not ok.get("success"):
        lines = "".join(gen).split("\n")
        for line in pr.stderr.split("\n"):
            if not line.startswith("{"):
                continue
            try:
                dj = json.loads(line)
            except Exception:
                continue
            if dj.get("level") == "error" and "postcondition" in dj.get("message", ""):
                ln = [s_ for s_ in dj["spans"] if s_.get("is_primary")][0]["line_start"]
                m = re.search(r"proof fn (set|agree)_(\w+)", lines[ln - 1])
                if m and m.group(1) == "set":
                    res["failed"].append({"obligation": "structural::cmp_instrs::%s::ordering_set" % m.group(2), "engine": "verus", "message": "the arm succeeds on a different set of Orderings than its predicate: " + lines[ln - 2].strip(), "source": m.group(2), "at": "src/machine/dispatch.rs"})
                elif m:
                    res["failed"].append({"obligation": "structural::cmp_instrs::agree_%s" % m.group(2), "engine": "verus", "message": "the six comparison instructions disagree with each other", "source": m.group(2), "at": "src/machine/dispatch.rs"})
        if not res["failed"]:
            res["undecided"].append("cmp_instrs: verus failed without a mapped diagnostic")
    return res


def _fn_text(repo, path, name):
    from rustlex import find_fns
    p = os.path.join(repo, path)
    if not os.path.exists(p):
        return None
    toks = lex(open(p, encoding="utf-8").read())
    its = find_fns(toks, name)
    if len(its) != 1:
        return None
    blk = toks[its[0].body_open:its[0].body_close + 1]
    return " ".join(t.text for t in _sig(blk)).replace(": :", "::").replace("= >", "=>")


def check_switch_routes(repo, scratch):
    """Which first-argument kinds are looked up by key in the constant index (route `c`)?
    Only kinds whose keys are canonical (unit indexkey) may be; big integers and rationals, whose
    keys are arena addresses, must take the try-every-clause route `v`."""
    base = "structural::switch_routes::"
    res = {"obligations": [base + k for k in ("var_to_v", "list_to_l", "small_const_to_c", "atom_to_c", "bignum_to_v")], "failed": [], "undecided": [],
           "assumptions": ["[structural:switch_routes] the variable route `v` tries every clause in textual order and head unification selects (C10/C07 territory, not decided here)"],
           "functions": [{"name": "MachineState::select_switch_on_term_index", "file": "src/machine/dispatch.rs", "engine": "structural", "unit": "switch_routes", "under_contract": True}]}
    s = _fn_text(repo, "src/machine/dispatch.rs", "select_switch_on_term_index")
    if s is None:
        res["undecided"].append(base + ": select_switch_on_term_index not found (lost anchor)"); return res
    T = "HeapCellValueTag :: "
    def route(pattern):
        m = re.search(pattern + r" => \{ (\w+) \}", s)
        return m.group(1) if m else None
    table = [
        ("var_to_v", r"\( %sVar \| %sStackVar \| %sAttrVar \)" % (T, T, T), "v"),
        ("list_to_l", r"\( %sPStrLoc \| %sLis \)" % (T, T), "l"),
        ("small_const_to_c", r"\( %sFixnum \| %sCutPoint \| %sF64Offset \)" % (T, T, T), "c"),
        ("bignum_to_v", r"ArenaHeaderTag :: Rational \| ArenaHeaderTag :: Integer", "v"),
    ]
    for name, pat, want in table:
        got = route(pat)
        if got is None:
            res["undecided"].append(base + name + ": arm not recognised (lost anchor)")
        elif got != want:
            res["failed"].append({"obligation": base + name, "engine": "structural", "source": "select_switch_on_term_index", "at": "src/machine/dispatch.rs",
                                  "message": "first arguments of this kind are routed to `%s`, must be `%s`%s" % (got, want, " (big numbers are keyed by arena address in the constant index: equal values miss their key)" if name == "bignum_to_v" else "")})
    m = re.search(r"\( %sAtom , \( _name , arity \) \) => \{ debug_assert ! \( arity = = 0 \) ; (\w+) \}" % T, s)
    if not m:
        res["undecided"].append(base + "atom_to_c: arm not recognised (lost anchor)")
    elif m.group(1) != "c":
        res["failed"].append({"obligation": base + "atom_to_c", "engine": "structural", "source": "select_switch_on_term_index", "at": "src/machine/dispatch.rs", "message": "atoms routed to `%s`, must be `c`" % m.group(1)})
    return res


CHECKS = {"cmp_instrs": check_cmp_instrs, "switch_routes": check_switch_routes}


def run(names, repo, scratch=None):
    scratch = scratch or os.path.join(ROOT, ".scratch", "structural")
    out = {"obligations": [], "failed": [], "undecided": [], "assumptions": [], "functions": [], "cmds": []}
    for n in names:
        r = CHECKS[n](repo, scratch)
        for k in ("obligations", "failed", "undecided", "assumptions", "functions"):
            out[k] += r.get(k, [])
        if r.get("cmd"):
            out["cmds"].append(r["cmd"])
    return out


if __name__ == "__main__":
    r = run(sys.argv[1:], "/repo")
    print(len(r["obligations"]), "obligations;", len(r["failed"]), "failed;", r["undecided"][:3])
    for f in r["failed"]:
        print("FAILED", f["obligation"], f["message"][:200])
