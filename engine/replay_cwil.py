"""Replay for C40: nested call_with_inference_limit/3 goals are run on the real binary for a range of
outer limits; the outcome must be monotone in the limit (once the goal fits, every larger limit fits)
and deterministic (two runs agree)."""
import os, re, subprocess
import replay_arith

PROGRAM = r"""
:- use_module(library(iso_ext)).
:- use_module(library(between)).
:- use_module(library(format)).
:- use_module(library(lists)).
count(0).
count(N) :- N > 0, N1 is N - 1, count(N1).
goal(Li, (count(25), call_with_inference_limit(count(55), Li, _), count(400))).
goal(Li, (count(5), call_with_inference_limit((count(10), call_with_inference_limit(count(30), Li, _)), 200, _), count(300))).
outcome(G, L, R) :- call_with_inference_limit(G, L, R0), !, ( R0 == inference_limit_exceeded -> R = exceeded ; R = ok ).
outcome(_, _, failed).
scan(Li, G) :-
    findall(L-R, ( between(1, 120, K), L is K * 17, outcome(G, L, R) ), Ps),
    findall(L-R, ( between(1, 120, K), L is K * 17, outcome(G, L, R) ), Ps2),
    ( Ps == Ps2 -> true ; format("NONDET inner=~d~n", [Li]) ),
    ( append(_, [L1-ok, L2-exceeded|_], Ps) -> format("NONMONO inner=~d ok_at=~d exceeded_at=~d~n", [Li, L1, L2]) ; true ).
% an enclosing limit survives an inner limited call, whether that call exits deterministically or not
step :- call_with_inference_limit(true, 10, _).
stepnd :- call_with_inference_limit((true ; true), 10, _).
expect(G, L, Want) :- ( outcome(G, L, R) -> true ; R = failed ), ( R == Want -> true ; format("WRONG limit=~d goal=~q got=~q expected=~q~n", [L, G, R, Want]) ).
m1 :- member(Li, [30, 60, 120, 250, 400, 1000]), goal(Li, G), scan(Li, G), fail.
m1 :- expect((step, count(1000)), 200, exceeded), expect((count(1000), step), 200, exceeded), expect((step, step, count(1000)), 300, exceeded),
        expect((stepnd, count(1000)), 200, exceeded), expect((step, count(10)), 2000, ok), expect(count(1000), 200, exceeded), fail.
m1.
% history independence: the outcome of a limited call does not depend on limited calls made before it, whatever way those
% ended (re-entered and failed, threw on redo, exceeded on redo, nested, cut)
pick(1).
pick(2).
pick(X) :- X = 3, fail.
pickt(1).
pickt(2).
pickt(_) :- throw(oops).
results(G, L, Rs) :- findall(R, call_with_inference_limit(G, L, R), Rs).
disturb(1) :- results(pick(_), 60, _).
disturb(2) :- catch(results(pickt(_), 60, _), _, true).
disturb(3) :- results((pick(_), count(30)), 45, _).
disturb(4) :- results((pick(_), call_with_inference_limit(pick(_), 50, _)), 500, _).
disturb(5) :- call_with_inference_limit(pick(_), 60, _), !.
disturb(6) :- catch(call_with_inference_limit((pick(X), X >= 2, throw(e)), 100, _), _, true).
disturb(7) :- results((pick(_), pick(_)), 200, _), results(pick(_), 60, _).
disturb(8) :- results(call_with_inference_limit((pick(_), pick(_)), 40, _), 300, _).
probe([A, B, C, D]) :- results(count(40), 1000, A), results((count(10) ; count(20)), 100, B), results(count(400), 100, C), results((pick(X), count(X)), 50, D).
m2 :- probe(P0), between(1, 8, D), ( catch(disturb(D), _, true) -> true ; true ), probe(P1),
        ( P0 == P1 -> true ; format("WRONG limit=~d goal=~q got=~q expected=~q~n", [D, probe_after_disturbance(D), P1, P0]) ), fail.
m2.
main :- m1, m2, halt.
:- initialization(main).
"""


def replay_all(repo, by_ob, scratch, log):
    binary = replay_arith.build_binary(repo, log)
    if not binary:
        return {ob: None for ob in by_ob}
    path = os.path.join(scratch, "replay_cwil.pl")
    open(path, "w").write(PROGRAM)
    p = subprocess.run([binary, "-f", "--no-add-history", path], capture_output=True, text=True, timeout=600, stdin=subprocess.DEVNULL)
    if "overwriting" in (p.stdout + p.stderr):
        log.append("oracle program is malformed (discontiguous clauses were overwritten): not used")
        return {ob: None for ob in by_ob}
    fails = []
    for line in p.stdout.split("\n"):
        if line.startswith("NONMONO") or line.startswith("NONDET") or line.startswith("WRONG"):
            fails.append({"goal": line.strip(), "got": ["v", line.strip()], "expected": ["v", "outcome monotone in the limit and deterministic"], "op": "cwil", "a": None, "b": None})
    if p.returncode != 0:
        # the program ends with halt/0: any other exit is a crash of the machine (e.g. unwinding to a dead choice point)
        last = [l for l in p.stdout.split("\n") if l.strip()][-1:] or [""]
        fails.append({"goal": "engine/replay_cwil.py: the process died with exit %s after printing %r" % (p.returncode, last[0][:120]), "got": ["crash", (p.stderr or "")[-400:].strip()], "expected": ["v", "normal termination"], "op": "cwil", "a": None, "b": None})
    log.append("inference-limit replay: %d anomalies (exit %s)" % (len(fails), p.returncode))
    return {ob: fails for ob in by_ob}


def rerun(rec, repo):
    log = []
    r = replay_all(repo, {rec["obligation"]: []}, os.path.join(os.path.dirname(os.path.dirname(os.path.abspath(__file__))), ".scratch"), log)
    print("\n".join(log))
    for f in r[rec["obligation"]] or []:
        print("STILL FAILS:", f["goal"])
    return 1 if r[rec["obligation"]] else 0
