"""Turns failed obligations into KNOWN-FINDING / VIOLATION verdicts.

For every failed obligation the replay driver of the property's family tries to
exhibit a concrete failing input on the real code (built from /repo's working
tree). The replay file always names the failed obligation and carries the
verifier's output; when no input is found it says so and the VIOLATION line ends
with `no-failing-input-found`.

Known findings (known_findings.json, never written here) suppress only the
exact obligation they name, and -- where they carry an input predicate -- only
when every failing replay input satisfies that predicate."""
import json, os, re, subprocess, sys, time

ROOT = os.path.dirname(os.path.dirname(os.path.abspath(__file__)))
OUT = os.path.join(ROOT, "out", "replay")


def _fn_of(ob):
    # "<unit>::<fn>::<kind>" or "<unit>::lemma::<name>"
    parts = ob.split("::")
    return parts[1] if len(parts) > 1 else ob


def _ob_match(kf, ob):
    o = kf.get("obligation")
    return ob in o if isinstance(o, list) else o == ob


def _pred_ok(pred, inp):
    """known-finding input predicate: a Python expression over a, b, op, goal (evaluated on replay inputs only)"""
    try:
        return bool(eval(pred, {"__builtins__": {}}, {"a": inp.get("a"), "b": inp.get("b"), "op": inp.get("op"), "goal": inp.get("goal", ""), "abs": abs, "inp": inp}))
    except Exception:
        return False


def run(pid, cfg, failed, findings, repo, scratch):
    os.makedirs(OUT, exist_ok=True)
    by_ob_all = {}
    for f in failed:
        by_ob_all.setdefault(f["obligation"], []).append(f)
    log = []
    fam = cfg.get("replay")
    pre_known = []
    by_ob = {}
    for ob, fl in by_ob_all.items():
        kf = [k for k in findings if _ob_match(k, ob) and not k.get("input_predicate")]
        if kf:
            pre_known.append("%s: %s" % (ob, kf[0].get("what", kf[0].get("site", ""))))
        else:
            by_ob[ob] = fl
    fails_by_fn = {}
    if not by_ob:
        pass
    elif fam == "arith":
        import replay_arith
        fns = sorted(set(_fn_of(ob) for ob in by_ob))
        binary = replay_arith.build_binary(repo, log)
        for fn in fns:
            r = replay_arith.replay(repo, [fn], scratch, log, binary=binary) if binary else None
            fails_by_fn[fn] = r
    elif fam in ("arith_float", "arith_cmp"):
        import replay_arith
        binary = replay_arith.build_binary(repo, log)
        fnc = replay_arith.replay_float if fam == "arith_float" else replay_arith.replay_cmp
        for fn in sorted(set((ob.split("::")[-1] if _fn_of(ob) == "lemma" else _fn_of(ob)) for ob in by_ob)):
            fails_by_fn[fn] = fnc(repo, [fn], scratch, log, binary=binary) if binary else None
    elif fam in ("heap", "charreader"):
        import replay_rust
        fails_by_fn = replay_rust.replay_all(repo, by_ob, scratch, log, fam)
    elif fam:
        mod = __import__("replay_" + fam)
        fails_by_fn = mod.replay_all(repo, by_ob, scratch, log)
    known, violations = list(pre_known), []
    for ob, fl in sorted(by_ob.items()):
        fn = _fn_of(ob)
        if fam in ("arith", "arith_float", "arith_cmp"):
            inputs = fails_by_fn.get(fn) or fails_by_fn.get(ob.split("::")[-1])
        else:
            inputs = fails_by_fn.get(ob)
        matched = None
        for kf in findings:
            if not _ob_match(kf, ob):
                continue
            pred = kf.get("input_predicate")
            if pred and inputs:
                outside = [i for i in inputs if not _pred_ok(pred, i)]
                if outside:
                    inputs = outside   # report only what the finding does not cover
                    continue
            matched = kf
            break
        if matched:
            known.append("%s: %s" % (ob, matched.get("what", matched.get("site", ""))))
            continue
        path = os.path.join(OUT, "%s-%s.json" % (pid, re.sub(r"[^A-Za-z0-9_.#@-]", "_", ob)))
        rec = {
            "property": pid, "obligation": ob, "engine": fl[0].get("engine"),
            "verifier_messages": [{"message": f.get("message"), "source": f.get("source"), "at": f.get("at"), "rendered": f.get("rendered", "")[:4000]} for f in fl],
            "replay_family": fam, "replay_log": log,
            "failing_inputs": (inputs or [])[:25], "failing_inputs_total": len(inputs or []),
            "found_input": bool(inputs),
            "note": None if inputs else "the verifier refuted this obligation but the replay grid found no concrete disagreement on the real code (no-failing-input-found)",
        }
        json.dump(rec, open(path, "w"), indent=1, default=str)
        violations.append({"obligation": ob, "path": path, "found_input": bool(inputs)})
    return {"known": known, "violations": violations}


def rerun(pid, path, repo):
    """./check <ID> --replay FILE : re-run the recorded failing inputs on the current tree."""
    rec = json.load(open(path))
    print("obligation:", rec["obligation"])
    for m in rec.get("verifier_messages", []):
        print("verifier:", m.get("message"), "|", m.get("source"))
    fam = rec.get("replay_family")
    if not rec.get("failing_inputs"):
        print("no concrete failing input was recorded (no-failing-input-found)")
        return 1
    if fam in ("arith", "arith_float", "arith_cmp"):
        import replay_arith
        if fam == "arith_cmp":
            replay_arith.PL_HEAD = replay_arith.CMP_HEAD
        log = []
        binary = replay_arith.build_binary(repo, log)
        if not binary:
            print("\n".join(log)); return 2
        goals = [i["goal"][len("X is "):] if i["goal"].startswith("X is ") else i["goal"] for i in rec["failing_inputs"]]
        scratch = os.path.join(ROOT, ".scratch", "replay")
        os.makedirs(scratch, exist_ok=True)
        out = replay_arith.run_goals(binary, goals, scratch, log)
        bad = 0
        for k, i in enumerate(rec["failing_inputs"]):
            got = out.get(k)
            exp = i["expected"]
            same_as_recorded = got is not None and list(got) == i["got"]
            ok = got is not None and got[0] == exp[0] and (got[1].strip() == exp[1] if got[0] == "v" else True)
            print("%s -> %s (expected %s)%s" % (i["goal"], got, exp, "" if ok else "  STILL FAILS"))
            bad += 0 if ok else 1
        return 1 if bad else 0
    if fam in ("heap", "charreader"):
        import replay_rust
        log = []
        fails = replay_rust.run_family(repo, fam, log)
        print("\n".join(log))
        for f in fails or []:
            print("STILL FAILS:", f)
        return 1 if fails else 0
    mod = __import__("replay_" + fam)
    return mod.rerun(rec, repo)
