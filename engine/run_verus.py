"""Engine V back end: build a unit's Verus file from /repo's working tree, run
verus on it, and turn the result into named obligations."""
import importlib.util, json, os, re, subprocess, sys, time, hashlib

HERE = os.path.dirname(os.path.abspath(__file__))
ROOT = os.path.dirname(HERE)
sys.path.insert(0, HERE)
import extract
from extract import LostAnchor, Spec, build_unit, map_line, count_clauses

# Messages with which Verus reports a *semantic* failure of a proof obligation. Anything
# else (syntax, type, mode, unsupported construct, internal error) is a tool problem -> undecided.
SEMANTIC = re.compile(r"postcondition not satisfied|precondition not satisfied|assertion failed|requires not satisfied|possible arithmetic underflow/overflow|"
                      r"invariant not satisfied|decreases not satisfied|possible division by zero|possible bit shift|"
                      r"could not prove termination|unreachable|possible overflow|failed to prove|proof block|recommendation not met|"
                      r"bit.vector|nonlinear|by \(compute\)|index out of bounds|may be out of bounds|cannot show|value may be out of range|"
                      r"cast|constructor precondition|possible truncation|is_variant|possible negative|requires clause|"
                      r"unable to prove post-condition of closure|fails to satisfy `callee\.requires")

ASSUME_PATTERNS = [
    ("external_body", re.compile(r"external_body")),
    ("assume_specification", re.compile(r"assume_specification")),
    ("admit", re.compile(r"\badmit\s*\(")),
    ("assume", re.compile(r"\bassume\s*\(")),
    ("uninterp", re.compile(r"\buninterp\b")),
    ("external_fn_specification", re.compile(r"external_fn_specification|external_type_specification|verifier::external\b")),
]


def load_unit(unit_name):
    d = os.path.join(ROOT, "contracts", unit_name)
    p = os.path.join(d, "unit.py")
    if not os.path.exists(p):
        raise FileNotFoundError(p)
    spec = importlib.util.spec_from_file_location("unit_" + unit_name, p)
    m = importlib.util.module_from_spec(spec)
    sys.path.insert(0, os.path.join(ROOT, "contracts", "common"))
    spec.loader.exec_module(m)
    return m, d


def prelude_texts(m, d):
    out = []
    for p in m.UNIT.get("prelude", []):
        if callable(p):
            out.append(p())
        else:
            out.append(open(os.path.join(d, p)).read())
    return out


def scan_assumptions(text_, upto_line=None):
    """(kind, line, trimmed source line) for every trusted construct in the generated file"""
    out = []
    for ln, line in enumerate(text_.split("\n"), 1):
        code = line.split("//")[0]
        for kind, rx in ASSUME_PATTERNS:
            if rx.search(code):
                out.append((kind, ln, line.strip()[:160]))
    return out


def obligations_of(ex, spec):
    """Named obligations generated for this unit (before running the verifier)."""
    obs = []
    for it in ex.items:
        name = it["name"]
        if it.get("type_item"):
            continue
        obs.append("%s::body" % name)   # callee preconditions, overflow, bounds, asserts, termination
        # generated in-body obligations that carry their own name (`/* push pair #k */`)
        for k in sorted(set(int(x) for x in re.findall(r"/\* push pair #(\d+) \*/", it.get("emitted", "")))):
            obs.append("%s::push_pair#%d" % (name, k))
        if name in spec.fn:
            c = count_clauses(spec.fn[name][0])
            for k in range(c["ensures"]):
                obs.append("%s::post#%d" % (name, k + 1))
        for (fname, n), (body, _) in sorted(spec.loop.items()):
            if fname == name:
                c = count_clauses(body)
                for k in range(c["invariant"] + c["invariant_except_break"]):
                    obs.append("%s::inv@loop%d#%d" % (name, n, k + 1))
                if c["decreases"]:
                    obs.append("%s::decreases@loop%d" % (name, n))
    # lemmas / proof fns in raw sections
    for body, p in spec.raw:
        for m in re.finditer(r"\bproof\s+fn\s+(\w+)", body):
            pre = body[:m.start()].rstrip()
            if pre.endswith("]") and "external_body" in pre[pre.rfind("#["):]:
                continue
            obs.append("lemma::%s" % m.group(1))
    return obs


def clause_index(ex, gen_text, line, fn, label):
    """ordinal (1-based) of the contract clause that contains `line` inside block (fn,label)"""
    for a, b, name, lab in ex.linemap:
        if name == fn and lab == label and a <= line <= b:
            blk = gen_text.split("\n")[a - 1:b]
            # count clause starts up to the line
            kw = None
            idx = {"requires": 0, "ensures": 0, "invariant": 0, "decreases": 0, "invariant_except_break": 0, "recommends": 0}
            depth = 0
            cur_kw = None
            started = False
            result = None
            for off, l in enumerate(blk):
                stripped = l.split("//")[0]
                toks = [t for t in extract.lex(stripped) if extract.is_sig(t)]
                for t in toks:
                    if t.kind == "id" and t.text in idx and depth == 0:
                        cur_kw = t.text; started = False; continue
                    if not started and cur_kw:
                        idx[cur_kw] += 1; started = True
                    if t.kind == "p" and t.text in "([{":
                        depth += 1
                    elif t.kind == "p" and t.text in ")]}":
                        depth -= 1
                    elif t.kind == "p" and t.text == "," and depth == 0:
                        started = False
                if a + off == line:
                    return cur_kw, idx.get(cur_kw, 0)
    return None, 0


def run(unit_name, repo, outdir, extra_args=(), probe=False, timeout=900, tolerant=False):
    t0 = time.time()
    m, d = load_unit(unit_name)
    spec = Spec.load([os.path.join(d, s) for s in m.UNIT["specs"]])
    extract.TOLERANT_HINTS = bool(tolerant)
    extract.DROPPED_HINTS[:] = []
    try:
        ex = build_unit(repo, m.UNIT, spec, prelude_texts(m, d))
    finally:
        extract.TOLERANT_HINTS = False
    dropped_hints = list(extract.DROPPED_HINTS)
    os.makedirs(outdir, exist_ok=True)
    gen_path = os.path.join(outdir, unit_name + ".rs")
    open(gen_path, "w").write(ex.text)
    obs = obligations_of(ex, spec)
    cmd = ["verus", gen_path, "--output-json", "--time", "--error-format=json", "--multiple-errors", "8"] + list(m.UNIT.get("verus_args", [])) + list(extra_args)
    try:
        p = subprocess.run(cmd, capture_output=True, text=True, timeout=timeout, cwd=outdir)
    except subprocess.TimeoutExpired:
        return {"unit": unit_name, "status": "undecided", "reason": "verus timeout %ds" % timeout, "obligations": obs,
                "failed": [], "gen_path": gen_path, "ex": ex, "spec": spec, "wall_s": time.time() - t0, "cmd": " ".join(cmd)}
    wall = time.time() - t0
    try:
        js = json.loads(p.stdout)
    except Exception:
        js = None
    diags = []
    for line in p.stderr.split("\n"):
        line = line.strip()
        if line.startswith("{"):
            try:
                dj = json.loads(line)
            except Exception:
                continue
            if dj.get("$message_type") == "diagnostic":
                diags.append(dj)
    res = {"unit": unit_name, "gen_path": gen_path, "ex": ex, "spec": spec, "obligations": obs, "wall_s": wall,
           "cmd": " ".join(cmd), "raw_stdout": p.stdout, "raw_stderr": p.stderr, "verus_exit": p.returncode,
           "assumptions": scan_assumptions(ex.text), "tolerant": bool(tolerant), "dropped_hints": dropped_hints}
    errors = [dj for dj in diags if dj.get("level") == "error" and not dj["message"].startswith("aborting due to")]
    if js is None or "verification-results" not in js:
        res.update(status="undecided", reason="verus produced no verification result (compile error or crash): " +
                   "; ".join(e["message"] for e in errors[:5]), failed=[], errors=errors)
        return res
    vr = js["verification-results"]
    res["verified"] = vr.get("verified", 0)
    res["errors_n"] = vr.get("errors", 0)
    res["smt_ms"] = js.get("times-ms", {}).get("smt", {}).get("total")
    res["total_ms"] = js.get("times-ms", {}).get("total")
    if vr.get("encountered-vir-error"):
        res.update(status="undecided", reason="verus VIR error (unsupported construct?): " +
                   "; ".join(e["message"] for e in errors[:5]), failed=[], errors=errors)
        return res
    failed = []
    undecided = []
    for e in errors:
        msg = e["message"]
        spans = e.get("spans", [])
        prim = [s for s in spans if s.get("is_primary")] or spans
        if not prim:
            undecided.append(msg); continue
        line = prim[0]["line_start"]
        fn, label = map_line(ex, line)
        src_line = (prim[0].get("text") or [{}])[0].get("text", "").strip()
        # find the function the error belongs to: for postconditions, primary span is the clause (inside the contract block)
        kind = None
        if "rlimit" in msg or "resource limit" in msg or "timed out" in msg.lower():
            undecided.append("%s: %s" % (fn, msg)); continue
        if not SEMANTIC.search(msg):
            undecided.append("line %d (%s): non-semantic verus error: %s" % (line, fn, msg)); continue
        if fn is None:
            # error located in prelude/lemma text
            lem = None
            txt = ex.text.split("\n")
            for k in range(line - 1, -1, -1):
                mm = re.search(r"\bproof\s+fn\s+(\w+)", txt[k])
                if mm:
                    lem = mm.group(1); break
                mm = re.search(r"\bfn\s+(\w+)", txt[k])
                if mm:
                    lem = mm.group(1); break
            failed.append({"obligation": "lemma::%s" % lem, "message": msg, "line": line, "source": src_line}); continue
        if label == "contract":
            kw, k = clause_index(ex, ex.text, line, fn, label)
            if kw == "ensures":
                ob = "%s::post#%d" % (fn, k)
            else:
                ob = "%s::%s#%d" % (fn, kw, k)
        elif label.startswith("loop"):
            kw, k = clause_index(ex, ex.text, line, fn, label)
            if kw in ("invariant", "invariant_except_break"):
                ob = "%s::inv@%s#%d" % (fn, label, k)
            else:
                ob = "%s::decreases@%s" % (fn, label)
        elif label.startswith("closure"):
            ob = "%s::%s" % (fn, label)
        else:
            ob = "%s::body" % fn
            mm = re.search(r"/\* push pair #(\d+) \*/", src_line or "")
            if mm:
                ob = "%s::push_pair#%s" % (fn, mm.group(1))
        # secondary span tells which call / which exit
        sec = [s for s in spans if not s.get("is_primary")]
        at = ""
        if sec:
            at = (sec[0].get("text") or [{}])[0].get("text", "").strip()
        failed.append({"obligation": ob, "message": msg, "line": line, "source": src_line, "at": at,
                       "rendered": e.get("rendered", "")})
    res["failed"] = failed
    if undecided:
        res["status"] = "undecided"; res["reason"] = "; ".join(undecided)
    elif failed:
        res["status"] = "failed"
    elif vr.get("success"):
        res["status"] = "ok"
    else:
        res["status"] = "undecided"; res["reason"] = "verus reported failure without a mapped diagnostic"
    return res


def run_probes(unit_name, repo, outdir, timeout=900):
    """Vacuity guard: every free function under contract gets a twin whose postcondition is `false`.
    The twin must be refuted; a twin that verifies means a contradictory precondition or shim contract."""
    m, d = load_unit(unit_name)
    spec = Spec.load([os.path.join(d, s) for s in m.UNIT["specs"]])
    ex = build_unit(repo, m.UNIT, spec, prelude_texts(m, d), probe=True)
    outdir = os.path.abspath(outdir)
    gen_path = os.path.join(outdir, unit_name + "__probe.rs")
    open(gen_path, "w").write(ex.text)
    cmd = ["verus", gen_path, "--output-json", "--time", "--error-format=json", "--multiple-errors", "2"] + list(m.UNIT.get("verus_args", []))
    res = {"unit": unit_name, "probed": list(ex.probes), "refuted": [], "vacuous": [], "smt_s": 0}
    try:
        p = subprocess.run(cmd, capture_output=True, text=True, timeout=timeout, cwd=outdir)
    except subprocess.TimeoutExpired:
        res["vacuous"] = ["(probe run timed out)"]
        return res
    refuted = set()
    for line in p.stderr.split("\n"):
        line = line.strip()
        if not line.startswith("{"):
            continue
        try:
            dj = json.loads(line)
        except Exception:
            continue
        if dj.get("level") != "error":
            continue
        for sp_ in dj.get("spans", []):
            fn, label = map_line(ex, sp_["line_start"])
            if fn and fn.endswith("__probe") and "postcondition not satisfied" in dj["message"]:
                refuted.add(fn[:-len("__probe")])
    try:
        js = json.loads(p.stdout)
        res["smt_s"] = (js.get("times-ms", {}).get("smt", {}).get("total") or 0) / 1000.0
        if "verification-results" not in js or js["verification-results"].get("encountered-vir-error"):
            res["vacuous"] = ["(probe file did not reach verification)"]
            return res
    except Exception:
        res["vacuous"] = ["(probe run produced no result)"]
        return res
    res["refuted"] = sorted(refuted)
    res["vacuous"] = sorted(set(ex.probes) - refuted)
    return res


if __name__ == "__main__":
    import argparse
    ap = argparse.ArgumentParser()
    ap.add_argument("unit")
    ap.add_argument("--repo", default="/repo")
    ap.add_argument("--out", default=os.path.join(ROOT, ".scratch", "verus"))
    ap.add_argument("-v", action="store_true")
    a = ap.parse_args()
    try:
        r = run(a.unit, a.repo, a.out)
    except LostAnchor as e:
        print("UNDECIDED lost-anchor:", e); sys.exit(2)
    print("status:", r["status"], r.get("reason", ""))
    print("verified:", r.get("verified"), "errors:", r.get("errors_n"), "smt_ms:", r.get("smt_ms"), "wall: %.1fs" % r["wall_s"])
    print("obligations:", len(r["obligations"]), "rewrites:", r["ex"].counts)
    for f in r.get("failed", []):
        print("FAILED", f["obligation"], "|", f["message"], "| line", f["line"], "|", f["source"][:100], "| at:", f.get("at", "")[:80])
    if r["status"] == "undecided" and a.v:
        for e in r.get("errors", [])[:20]:
            print(e.get("rendered"))
    if a.v and r["status"] == "undecided":
        print(r.get("raw_stderr", "")[-3000:])
