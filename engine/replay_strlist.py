"""Oracle for C20 (a string is the list of its characters): every operation is run once on strings (literals, atom_chars
results, suffixes that share one packed string) and once on the same lists rebuilt cell by cell; the answers must be equal.
Crashes of the process are located and reported as failing inputs."""
import os, re, subprocess
import replay_arith

PROGRAM = r"""
:- use_module(library(lists)).
:- use_module(library(format)).
:- use_module(library(between)).
:- use_module(library(iso_ext)).
:- use_module(library(terms)).
:- use_module(library(charsio)).
:- use_module(library(pairs)).
wrapc(X, c(X)).
:- set_prolog_flag(double_quotes, chars).
cells(Xs, L) :- append(Xs, [], L).                      % the same list, rebuilt from list cells
deep_cells(T, T) :- var(T), !.
deep_cells(T, C) :- T = [_|_], !, cells_list(T, C).
deep_cells(T, C) :- compound(T), !, T =.. [F|As], maplist(deep_cells, As, Bs), C =.. [F|Bs].
deep_cells(T, T).
cells_list(Xs, Ys) :- ( var(Xs) -> Ys = Xs ; Xs == [] -> Ys = [] ; Xs = [X|T] -> deep_cells(X, Y), cells_list(T, YT), Ys = [Y|YT] ; Ys = Xs ).
text("").
text("a").
text("ab").
text("abcdefg").
text("abcdefgh").
text("abcdefghi").
text("abcdefghijklmnopqrstuvwxyz").
text("caf\xe9\ \x20ac\\x1f600\ xyz").
text("ab\x0\cd").
text("abcde\xe9\").
text("\xe9\\xe9\ab").
text("\x20ac\\x1f600\\xe9\xyz\x20ac\").
text("abcde\x20ac\").
text("abcde\x1f600\").
text("\x0\").
% suffixes sharing the packed string of S
suffix(S, K, Suf) :- length(P, K), append(P, Suf, S).
chk(Name, G1, R1, G2, R2) :-
    ( catch(G1, E1, R1 = err(E1)) -> true ; R1 = failed ),
    ( catch(G2, E2, R2 = err(E2)) -> true ; R2 = failed ),
    ( variant(R1, R2) -> true ; format("MISMATCH ~q string=~q cells=~q~n", [Name, R1, R2]) ).
variant(A, B) :- \+ \+ ( copy_term(A-B, A1-B1), numbervars(A1, 0, N), numbervars(B1, 0, N), A1 == B1 ).
case(I, S) :-
    cells(S, L),
    chk(I-eq, (S == L -> R1 = yes ; R1 = no), R1, (L == L -> R2 = yes ; R2 = no), R2),
    chk(I-unify, (S = L -> R3 = yes ; R3 = no), R3, true, yes),
    chk(I-compare, compare(R4, S, L), R4, true, (=)),
    chk(I-length, length(S, R5), R5, length(L, R6), R6),
    chk(I-copy, (copy_term(f(S, S), R7)), R7, (copy_term(f(L, L), R8)), R8),
    chk(I-univ, (T1 = g(S), T1 =.. R9), R9, (T2 = g(L), T2 =.. R10), R10),
    chk(I-findall, findall(X, member(X, S), R11), R11, findall(X, member(X, L), R12), R12),
    chk(I-sort, sort(S, R13), R13, sort(L, R14), R14),
    chk(I-nth0, findall(K-X, nth0(K, S, X), R27), R27, findall(K-X, nth0(K, L, X), R28), R28),
    chk(I-nth0b, findall(K-X, ( member(K, [0, 1, 2, 3, 4, 6, 7, 8, 25]), nth0(K, S, X) ), R65), R65, findall(K-X, ( member(K, [0, 1, 2, 3, 4, 6, 7, 8, 25]), nth0(K, L, X) ), R66), R66),
    chk(I-nth1b, findall(K-X, ( member(K, [1, 2, 3, 5, 7, 9]), nth1(K, S, X) ), R67), R67, findall(K-X, ( member(K, [1, 2, 3, 5, 7, 9]), nth1(K, L, X) ), R68), R68),
    chk(I-lengthb, findall(N, ( member(N, [0, 1, 2, 3, 6, 7, 8, 9, 26]), length(S, N) ), R69), R69, findall(N, ( member(N, [0, 1, 2, 3, 6, 7, 8, 9, 26]), length(L, N) ), R70), R70),
    chk(I-prefix, findall(P, ( member(N, [0, 1, 2, 3, 5]), length(P, N), append(P, _, S) ), R71), R71, findall(P, ( member(N, [0, 1, 2, 3, 5]), length(P, N), append(P, _, L) ), R72), R72),
    chk(I-last, (append(_, [R29], S) -> true ; R29 = none), R29, (append(_, [R30], L) -> true ; R30 = none), R30),
    chk(I-arg, (arg(1, S, A1x), arg(2, S, A2x), R31 = A1x-A2x), R31, (arg(1, L, B1x), arg(2, L, B2x), R32 = B1x-B2x), R32),
    chk(I-functor, (functor(S, N1, Ar1), R33 = N1/Ar1), R33, (functor(L, N2, Ar2), R34 = N2/Ar2), R34),
    chk(I-write, phrase(format_("~w|~q|~a", [S, S, x]), R35), R35, phrase(format_("~w|~q|~a", [L, L, x]), R36), R36),
    chk(I-canonical, write_term_to_chars(S, [quoted(true), ignore_ops(true)], R37), R37, write_term_to_chars(L, [quoted(true), ignore_ops(true)], R38), R38),
    chk(I-wdq, write_term_to_chars(f(S), [quoted(true), double_quotes(true)], R39), R39, write_term_to_chars(f(L), [quoted(true), double_quotes(true)], R40), R40),
    chk(I-number, number_chars(R41, S), R41, number_chars(R42, L), R42),
    chk(I-order, (S @< [z] -> R43 = yes ; R43 = no), R43, (L @< [z] -> R44 = yes ; R44 = no), R44),
    chk(I-subsumes, (subsumes_term(S, L) -> R45 = yes ; R45 = no), R45, true, yes),
    chk(I-ground, (ground(S) -> R47 = yes ; R47 = no), R47, true, yes),
    chk(I-listq, (catch(length(S, _), _, fail) -> R49 = yes ; R49 = no), R49, true, yes),
    chk(I-keysort, (pairs_keys_values(Ps, S, S), keysort(Ps, R51)), R51, (pairs_keys_values(Qs, L, L), keysort(Qs, R52)), R52),
    chk(I-maplist, maplist(wrapc, S, R53), R53, maplist(wrapc, L, R54), R54),
    chk(I-setof, (setof(X, member(X, S), R55) -> true ; R55 = none), R55, (setof(X, member(X, L), R56) -> true ; R56 = none), R56),
    chk(I-codes, (atom_chars(A3, S), atom_codes(A3, R57)), R57, (atom_chars(A4, L), atom_codes(A4, R58)), R58),
    chk(I-concat, (atom_chars(A5, S), atom_concat(A5, A5, A6), atom_chars(A6, R59)), R59, append(L, L, R60), R60),
    chk(I-appself, append(S, S, R61), R61, append(L, L, R62), R62),
    chk(I-assert, (retractall(st(_)), assertz(st(S)), st(R15)), R15, (retractall(st(_)), assertz(st(L)), st(R16)), R16),
    chk(I-atom, (atom_chars(A1, S), atom_chars(A1, R17)), R17, (atom_chars(A2, L), atom_chars(A2, R18)), R18),
    chk(I-rev, reverse(S, R19), R19, reverse(L, R20), R20),
    chk(I-app, append(S, [z], R21), R21, append(L, [z], R22), R22),
    ( length(S, N), N >= 21 ->
        forall(( member([A, B, C], [[3,10,20],[3,20,10],[10,3,20],[10,20,3],[20,3,10],[20,10,3],[20,5,3],[1,2,3]]) ),
               ( suffix(S, A, SA), suffix(S, B, SB), suffix(S, C, SC), suffix(L, A, LA), suffix(L, B, LB), suffix(L, C, LC),
                 chk(I-copy3(A,B,C), copy_term(f(SA, SB, SC), R23), R23, copy_term(f(LA, LB, LC), R24), R24),
                 chk(I-cmp3(A,B,C), compare(R25, f(SA, SB), f(SB, SC)), R25, compare(R26, f(LA, LB), f(LB, LC)), R26) ))
    ; true ).
% a string that continues with an arbitrary tail (list cells, improper or open tails, another string) against the same
% term built from list cells only
tailcase(t_ints, [1, 2]).
tailcase(t_mixed, [f(x), 1, 2.0, b]).
tailcase(t_str, [1|S]) :- S = "zz".
tailcase(t_improper, [1|foo]).
tailcase(t_atom, foo).
tailcase(t_open, [1|_]).
tailcase(t_var, _).
with_tail([], T, T).
with_tail([X|Xs], T, [X|Ys]) :- with_tail(Xs, T, Ys).
case2(I, S) :-
    S = [_|_],
    forall(tailcase(N, T0),
      ( copy_term(T0, T), partial_string(S, P, T), with_tail(S, T, L),
        chk(I-N-sort, sort(P, R1), R1, sort(L, R2), R2),
        chk(I-N-length, length(P, R3), R3, length(L, R4), R4),
        chk(I-N-eq, (P == L -> R5 = yes ; R5 = no), R5, true, yes),
        chk(I-N-compare, compare(R6, P, L), R6, true, (=)),
        chk(I-N-keysort, (P = [K|_], keysort([K-1|P], R7)), R7, (L = [K2|_], keysort([K2-1|L], R8)), R8),
        chk(I-N-copy, copy_term(P, R9), R9, copy_term(L, R10), R10),
        chk(I-N-findall, findall(X, member(X, P), R11), R11, findall(X, member(X, L), R12), R12),
        chk(I-N-atom_chars, atom_chars(R13, P), R13, atom_chars(R14, L), R14),
        chk(I-N-atom_length, (atom_chars(A1, P), atom_length(A1, R15)), R15, (atom_chars(A2, L), atom_length(A2, R16)), R16),
        chk(I-N-univ, (R17 =.. [g|P]), R17, (R18 =.. [g|L]), R18),
        chk(I-N-rev, reverse(P, R19), R19, reverse(L, R20), R20),
        chk(I-N-assert, (retractall(st(_)), assertz(st(P)), st(R21)), R21, (retractall(st(_)), assertz(st(L)), st(R22)), R22),
        chk(I-N-number_codes, number_chars(R23, P), R23, number_chars(R24, L), R24),
        chk(I-N-ground, (ground(P) -> R25 = yes ; R25 = no), R25, (ground(L) -> R26 = yes ; R26 = no), R26),
        chk(I-N-tvars, (term_variables(P, Vs), length(Vs, R27)), R27, (term_variables(L, Ws), length(Ws, R28)), R28)
      )).
case2(_, []).
:- dynamic(st/1).
main :- findall(S, text(S), Ss), nth0(I, Ss, S), ( catch(case2(I, S), E, (format("MISMATCH ~q string=~q cells=~q~n", [I-case2, err(E), ok]))) -> true ; format("MISMATCH ~q string=~q cells=~q~n", [I-case2, failed, ok]) ), fail.
main :- findall(S, text(S), Ss), nth0(I, Ss, S), ( catch(case(I, S), E, (format("MISMATCH ~q string=~q cells=~q~n", [I-case, err(E), ok]))) -> true ; format("MISMATCH ~q string=~q cells=~q~n", [I-case, failed, ok]) ), fail.
main :- halt.
:- initialization(main).
"""


def _run(binary, path):
    return subprocess.run([binary, "-f", "--no-add-history", path], capture_output=True, text=True, timeout=600, stdin=subprocess.DEVNULL)


def replay_all(repo, by_ob, scratch, log):
    binary = replay_arith.build_binary(repo, log)
    if not binary:
        return {ob: None for ob in by_ob}
    os.makedirs(scratch, exist_ok=True)
    path = os.path.join(scratch, "replay_strlist.pl")
    open(path, "w", encoding="utf-8").write(PROGRAM)
    p = _run(binary, path)
    if "overwriting" in (p.stdout + p.stderr):
        log.append("oracle program is malformed (discontiguous clauses were overwritten): not used")
        return {ob: None for ob in by_ob}
    fails = []
    for line in p.stdout.split("\n"):
        m = re.match(r"MISMATCH (.*) string=(.*) cells=(.*)$", line)
        if m and len(fails) < 40:
            fails.append({"goal": "operation %s" % m.group(1), "got": ["string", m.group(2)], "expected": ["cells", m.group(3)], "op": m.group(1), "a": None, "b": None})
    if p.returncode != 0 and not fails:
        # the process died: run every text on its own to name the one that kills it
        n = PROGRAM.count("\ntext(")
        for i in range(n):
            one = os.path.join(scratch, "replay_strlist_one.pl")
            open(one, "w", encoding="utf-8").write(PROGRAM.replace("nth0(I, Ss, S),", "nth0(I, Ss, S), I == %d," % i))
            q = _run(binary, one)
            if q.returncode != 0:
                fails.append({"goal": "operations on text #%d of engine/replay_strlist.py" % i, "got": ["crash", (q.stderr or "")[-300:].strip()], "expected": ["v", "the same answers as for the list of characters"], "op": "case %d" % i, "a": None, "b": None})
    if "syntax_error" in (p.stdout + p.stderr):
        log.append("oracle program did not load: " + (p.stdout + p.stderr)[:300])
        return {ob: None for ob in by_ob}
    log.append("string-vs-list replay: %d disagreements (exit %s)" % (len(fails), p.returncode))
    return {ob: fails for ob in by_ob}


def rerun(rec, repo):
    log = []
    r = replay_all(repo, {rec["obligation"]: []}, os.path.join(os.path.dirname(os.path.dirname(os.path.abspath(__file__))), ".scratch", "replay"), log)
    print("\n".join(log))
    for f in r[rec["obligation"]] or []:
        print("STILL FAILS:", f["goal"], f["got"], f["expected"])
    return 1 if r[rec["obligation"]] else 0
