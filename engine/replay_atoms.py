"""Oracle for C21 (atom identity is text identity): every text is turned into an atom along every creation path (literal in
the program text, atom_chars, atom_codes, atom_concat, sub_atom, char_code, read_term on quoted text, assert/retract);
atoms of the same text must be identical for ==, unification, compare/3, first-argument indexing and functor names,
atoms of different texts must differ, and atoms must order by their code-point sequences."""
import os, re, subprocess
import replay_arith

TEXTS = ["", "a", "ab", "abc", "abcd", "abcde", "abcdef", "abcdefg", "abcdefgh", "abcdefghi", "abcdefghijklmnopqrstuvwxyzabcd",
         "é", "aé", "abcdé", "abcdeé", "€€", "ab€", "abc€", "abcd€", "\U0001F600", "ab\U0001F600", "abc\U0001F600",
         "a\x00b", "\x00", "abcde\x00", "ab\x00cdefgh",
         "[]", "{}", "append", "is", "true", "error", "call", "user", "end_of_file", "-", "+", ",", "|", "!", ";", "''", "'", " ", "A", "_", "0", "123", "1.5", "[", "a b",
         "read", "write", "integer", "evaluable", "false", "chars", ".", "callable", "atom", "list", "max_arity", "foo", "x"]


def quoted(t):
    out = "'"
    for ch in t:
        if ch.isalnum() and ord(ch) < 128:
            out += ch
        else:
            out += "\\x%x\\" % ord(ch)
    return out + "'"


PROGRAM_HEAD = r"""
:- use_module(library(lists)).
:- use_module(library(format)).
:- use_module(library(between)).
:- use_module(library(iso_ext)).
:- use_module(library(charsio)).
:- dynamic(store/1).
:- dynamic(tbl/2).
codes_of(I, Cs) :- codes(I, Cs).
% ---- creation paths: path(Name, Codes, Index, Atom)
path(literal, _, I, A) :- lit(I, A).
path(atom_codes, Cs, _, A) :- atom_codes(A, Cs).
path(atom_chars, Cs, _, A) :- maplist(cc, Cs, Chs), atom_chars(A, Chs).
path(concat_empty, Cs, _, A) :- atom_codes(A0, Cs), atom_concat('', A0, A).
path(concat_split, Cs, _, A) :- append(P, S, Cs), length(Cs, N), H is N // 2, length(P, H), atom_codes(PA, P), atom_codes(SA, S), atom_concat(PA, SA, A).
path(concat_chars, Cs, _, A) :- Cs = [C|S], char_code(Ch, C), atom_codes(SA, S), atom_concat(Ch, SA, A).
path(sub_atom, Cs, _, A) :- append([0'x|Cs], [0'y], Xs), atom_codes(X, Xs), length(Cs, N), sub_atom(X, 1, N, 1, A).
path(sub_atom_enum, Cs, _, A) :- atom_codes(X, Cs), sub_atom(X, 0, _, 0, A).
path(char_code, [C], _, A) :- char_code(A, C).
path(read_term, Cs, _, A) :- atom_codes(A0, Cs), phrase(format_("~q.", [A0]), Text), catch(read_from_chars(Text, A), _, fail), atom(A).
path(assert, Cs, _, A) :- atom_codes(A0, Cs), retractall(store(_)), assertz(store(A0)), retract(store(A)).
path(copy, Cs, _, A) :- atom_codes(A0, Cs), copy_term(A0, A).
path(univ, Cs, _, A) :- atom_codes(A0, Cs), T =.. [A0, x], T =.. [A|_].
path(functor, Cs, _, A) :- atom_codes(A0, Cs), functor(T, A0, 2), functor(T, A, _).
% atoms handed out by the system itself (predefined atoms written in the Rust sources, characters taken out of texts)
path(system, Cs, _, A) :- sys_atom(A), atom(A), atom_codes(A, Cs0), Cs0 == Cs.
path(char_of_text, [C], _, A) :- atom_codes(X, [C, 0'z]), atom_chars(X, [A|_]).
path(char_of_string, [C], _, A) :- atom_codes(X, [C, 0'z]), atom_chars(X, Chs), append(Chs, [], [A|_]).
err_of(G, E) :- catch((G, fail), error(E0, _), true), nonvar(E0), E = E0.
ctx_of(G, C) :- catch((G, fail), error(_, C0), true), nonvar(C0), C = C0.
sys_atom(A) :- catch(stream_property(S, alias(user_input)), _, fail), stream_property(S, mode(A)).
sys_atom(A) :- catch(stream_property(S, alias(user_output)), _, fail), stream_property(S, mode(A)).
sys_atom(A) :- catch(stream_property(null_stream, mode(A)), _, fail).
sys_atom(A) :- err_of(arg(a, f(x), _), type_error(A, _)).
sys_atom(A) :- err_of(_ is foo + 1, type_error(A, _)).
sys_atom(A) :- err_of(_ is foo + 1, type_error(_, A/_)).
sys_atom(A) :- err_of(atom_length(f(x), _), type_error(A, _)).
sys_atom(A) :- G = 1, err_of(call(G), type_error(A, _)).
sys_atom(A) :- err_of(atom_length(abc, foo), type_error(A, _)).
sys_atom(A) :- err_of(functor(_, foo, 100000), representation_error(A)).
sys_atom(A) :- err_of(sort(a, _), type_error(A, _)).
sys_atom(A) :- ctx_of(atom_length(_, _), A/_).
sys_atom(A) :- functor([x], A, _).
sys_atom(A) :- functor([], A, _).
sys_atom(A) :- functor({}, A, _).
sys_atom(A) :- functor({x}, A, _).
sys_atom(A) :- functor((x, y), A, _).
sys_atom(A) :- functor((x ; y), A, _).
sys_atom(A) :- functor(1 - 2, A, _).
sys_atom(A) :- functor(1 + 2, A, _).
sys_atom(A) :- X = (1 is 2), functor(X, A, _).
sys_atom(A) :- current_prolog_flag(bounded, A).
sys_atom(A) :- current_prolog_flag(double_quotes, A).
sys_atom(A) :- current_prolog_flag(unknown, A).
cc(C, Ch) :- char_code(Ch, C).
bad(What, I, P1, P2, X, Y) :- format("MISMATCH ~q ~d ~q ~q got=~q expected=~q~n", [What, I, P1, P2, X, Y]).
same(I, Cs) :-
    findall(P-A, path(P, Cs, I, A), PAs),
    ( PAs = [_, _|_] -> true ; bad(paths, I, none, none, PAs, at_least_two) ),
    forall(( member(P1-A1, PAs), member(P2-A2, PAs) ),
      ( ( A1 == A2 -> true ; bad(eq, I, P1, P2, no, yes) ),
        ( \+ A1 \= A2 -> true ; bad(unify, I, P1, P2, no, yes) ),
        ( compare(O, A1, A2), O == (=) -> true ; bad(compare, I, P1, P2, not_equal, (=)) ),
        ( atom_codes(A1, Cs1), Cs1 == Cs -> true ; bad(text, I, P1, P2, A1, Cs) ),
        ( T1 =.. [A1, x], T2 =.. [A2, x], T1 == T2 -> true ; bad(functor_name, I, P1, P2, no, yes) ),
        ( retractall(tbl(_, _)), assertz(tbl(zzz, 0)), assertz(tbl(A1, 1)), assertz(tbl(f(x), 2)), findall(K, tbl(A2, K), Ks), Ks == [1] -> true ; bad(index, I, P1, P2, lookup_failed, [1]) ),
        ( st(A1, K1), st(A2, K2), K1 == K2 -> true ; bad(static_index, I, P1, P2, differ, same) ),
        ( sort([A1, A2], S), S = [_] -> true ; bad(sort, I, P1, P2, two, one) ) )).
% a static indexed table over the literal atoms: an atom not in it answers none
st(A, K) :- ( stt(A, K0) -> K = K0 ; K = none ).
differ(I, J, Cs, Ds) :-
    P1 = atom_codes, P2 = sub_atom, atom_codes(A, Cs), path(sub_atom, Ds, J, B), !,
    ( A \== B -> true ; bad(distinct, I, P1, P2, equal, different) ),
    ( A \= B -> true ; bad(distinct_unify, I, P1, P2, unify, different) ),
    compare(Want, Cs, Ds), compare(Got, A, B),
    ( Got == Want -> true ; bad(order(J), I, P1, P2, Got, Want) ).
main :-
    ( codes(I, Cs), ( catch(same(I, Cs), E, bad(exception, I, none, none, E, none)) -> true ; bad(failed, I, none, none, failed, true) ), fail ; true ),
    ( codes(I, Cs), codes(J, Ds), I \== J, ( catch(differ(I, J, Cs, Ds), E, bad(exception, I, none, none, E, none)) -> true ; bad(failed_differ(J), I, none, none, failed, true) ), fail ; true ),
    % different paths for the cross-text ordering as well
    ( codes(I, Cs), codes(J, Ds), I < J, atom_codes(A, Cs), lit(J, B), compare(Want, Cs, Ds), compare(Got, A, B), ( Got == Want -> true ; bad(order_lit(J), I, atom_codes, literal, Got, Want) ), fail ; true ),
    format("DONE~n", []), halt.
:- initialization(main).
"""


def program():
    lines = []
    for i, t in enumerate(TEXTS):
        lines.append("codes(%d, [%s])." % (i, ",".join(str(ord(c)) for c in t)))
    for i, t in enumerate(TEXTS):
        lines.append("lit(%d, %s)." % (i, quoted(t)))
    for i, t in enumerate(TEXTS):
        lines.append("stt(%s, %d)." % (quoted(t), i))
    return "\n".join(lines) + "\n" + PROGRAM_HEAD


def run_with(binary, by_ob, scratch, log):
    os.makedirs(scratch, exist_ok=True)
    path = os.path.join(scratch, "replay_atoms.pl")
    open(path, "w", encoding="utf-8").write(program())
    p = subprocess.run([binary, "-f", "--no-add-history", path], capture_output=True, text=True, timeout=900, stdin=subprocess.DEVNULL)
    if "overwriting" in (p.stdout + p.stderr):
        log.append("oracle program is malformed (discontiguous clauses were overwritten): not used")
        return {ob: None for ob in by_ob}
    fails, n = [], 0
    for line in p.stdout.split("\n"):
        m = re.match(r"MISMATCH (\S+) (\d+) (\S+) (\S+) got=(.*) expected=(.*)$", line)
        if m:
            n += 1
            if len(fails) < 40:
                t = TEXTS[int(m.group(2))]
                fails.append({"goal": "%s on the atom with text %r made by %s and by %s (engine/replay_atoms.py)" % (m.group(1), t, m.group(3), m.group(4)),
                              "got": ["v", m.group(5)], "expected": ["v", m.group(6)], "op": m.group(1), "a": t, "b": None})
    if "DONE" not in p.stdout and not fails:
        if p.returncode != 0 and "syntax_error" not in (p.stdout + p.stderr):
            fails.append({"goal": "engine/replay_atoms.py program", "got": ["crash", (p.stderr or "")[-300:].strip()], "expected": ["v", "DONE"], "op": "main", "a": None, "b": None})
        else:
            log.append("oracle program did not run to the end: " + (p.stdout + p.stderr)[:400])
            return {ob: None for ob in by_ob}
    log.append("atom-identity replay: %d texts, %d disagreements (exit %s)" % (len(TEXTS), n, p.returncode))
    return {ob: fails for ob in by_ob}


def replay_all(repo, by_ob, scratch, log):
    binary = replay_arith.build_binary(repo, log)
    if not binary:
        return {ob: None for ob in by_ob}
    return run_with(binary, by_ob, scratch, log)


def rerun(rec, repo):
    log = []
    r = replay_all(repo, {rec["obligation"]: []}, os.path.join(os.path.dirname(os.path.dirname(os.path.abspath(__file__))), ".scratch", "replay"), log)
    print("\n".join(log))
    for f in r[rec["obligation"]] or []:
        print("STILL FAILS:", f["goal"], f["got"], f["expected"])
    return 1 if r[rec["obligation"]] else 0
