"""Replay for C03: every evaluable functor is evaluated on operand samples once through compiled
arithmetic (literal expression in a clause body) and once through the run-time evaluator (the same
term passed to is/2 in a variable); number results and formal error terms must be identical."""
import os, re, subprocess
import replay_arith

BIN = ["+", "-", "*", "/", "//", "div", "mod", "rem", "**", "^", ">>", "<<", "/\\", "\\/", "max", "min", "xor", "gcd", "atan2", "rdiv"]
UN = ["-", "+", "abs", "sign", "cos", "sin", "tan", "log", "exp", "sqrt", "acos", "asin", "atan", "float", "truncate", "round", "ceiling", "floor",
      "float_integer_part", "float_fractional_part", "\\"]
VALS = ["7", "2", "1", "1.0", "2.0", "(-7)", "0", "1.5", "(-0.5)", "36028797018963968", "(-36028797018963969)", "100000000000000000000", "3", "(1 rdiv 3)"]


def term(op, args):
    if op in ("max", "min", "xor", "gcd", "atan2", "abs", "sign", "cos", "sin", "tan", "log", "exp", "sqrt", "acos", "asin", "atan", "float", "truncate", "round",
              "ceiling", "floor", "float_integer_part", "float_fractional_part"):
        return "%s(%s)" % (op, ",".join(args))
    if len(args) == 1:
        return "%s(%s)" % (op, args[0]) if op != "\\" else "\\(%s)" % args[0]
    return "(%s %s %s)" % (args[0], op, args[1])


def replay_all(repo, by_ob, scratch, log):
    binary = replay_arith.build_binary(repo, log)
    if not binary:
        return {ob: None for ob in by_ob}
    lines = [":- use_module(library(format)).", ":- use_module(library(arithmetic)).",
             "cmp(I, T, X, Y) :- ( X == Y -> true ; format(\"MISMATCH ~d ~q compiled=~q runtime=~q~n\", [I, T, X, Y]) )."]
    n = 0
    exprs = []
    for op in BIN:
        for a in VALS:
            for b in VALS:
                if op in ("^", "**", "<<", ">>") and len(b.strip("()-")) > 3:
                    continue      # astronomically large results: not evaluated
                exprs.append(term(op, [a, b]))
    for op in UN:
        for a in VALS:
            exprs.append(term(op, [a]))
    exprs += ["pi", "e", "epsilon", "(pi * 2)", "(e + 1)"]
    for i, t in enumerate(exprs):
        lines.append("t(%d) :- catch(X is %s, error(E, _), X = err(E)), T = %s, catch(Y is T, error(F, _), Y = err(F)), cmp(%d, T, X, Y)." % (i, t, t, i))
    lines.append("main :- between(0, %d, I), catch(t(I), _, true), fail." % (len(exprs) - 1))
    lines.append("main :- halt.")
    lines.append(":- use_module(library(between)).")
    lines.append(":- initialization(main).")
    path = os.path.join(scratch, "replay_paths.pl")
    open(path, "w").write("\n".join(lines) + "\n")
    p = subprocess.run([binary, "-f", "--no-add-history", path], capture_output=True, text=True, timeout=240, stdin=subprocess.DEVNULL)
    fails = []
    for line in p.stdout.split("\n"):
        m = re.match(r"MISMATCH (\d+) (.*) compiled=(.*) runtime=(.*)$", line)
        if m:
            fails.append({"goal": "X is " + m.group(2), "got": ["runtime", m.group(4)], "expected": ["compiled", m.group(3)], "op": m.group(2), "a": None, "b": None})
    log.append("two-path replay: %d expressions, %d mismatches (exit %s)" % (len(exprs), len(fails), p.returncode))
    return {ob: fails for ob in by_ob}


def rerun(rec, repo):
    log = []
    r = replay_all(repo, {rec["obligation"]: []}, os.path.join(os.path.dirname(os.path.dirname(os.path.abspath(__file__))), ".scratch"), log)
    print("\n".join(log))
    for f in r[rec["obligation"]] or []:
        print("STILL DIFFERS:", f["goal"], f["got"], f["expected"])
    return 1 if r[rec["obligation"]] else 0
