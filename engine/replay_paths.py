"""Replay for C03: every evaluable functor is evaluated on operand samples once through compiled
arithmetic (literal expression in a clause body) and once through the run-time evaluator (the same
term passed to is/2 in a variable); number results and formal error terms must be identical."""
import os, re, subprocess
import replay_arith

BIN = ["+", "-", "*", "/", "//", "div", "mod", "rem", "**", "^", ">>", "<<", "/\\", "\\/", "max", "min", "xor", "gcd", "atan2", "rdiv"]
UN = ["-", "+", "abs", "sign", "cos", "sin", "tan", "log", "exp", "sqrt", "acos", "asin", "atan", "float", "truncate", "round", "ceiling", "floor",
      "float_integer_part", "float_fractional_part", "\\"]
VALS = ["7", "2", "1", "1.0", "2.0", "(-7)", "0", "1.5", "(-0.5)", "36028797018963968", "(-36028797018963969)", "100000000000000000000", "3", "(1 rdiv 3)"]


def term(op, args):
    if op in ("max", "min", "xor", "gcd", "atan2", "abs", "sign", "cos", "sin", "tan", "log", "exp", "sqrt", "acos", "asin", "atan", "float", "truncate", "round",
              "ceiling", "floor", "float_integer_part", "float_fractional_part"):
        return "%s(%s)" % (op, ",".join(args))
    if len(args) == 1:
        return "%s(%s)" % (op, args[0]) if op != "\\" else "\\(%s)" % args[0]
    return "(%s %s %s)" % (args[0], op, args[1])


def replay_all(repo, by_ob, scratch, log):
    binary = replay_arith.build_binary(repo, log)
    if not binary:
        return {ob: None for ob in by_ob}
    lines = [":- use_module(library(format)).", ":- use_module(library(arithmetic)).",
             "cmp(I, T, X, Y) :- ( X == Y -> true ; format(\"MISMATCH ~d ~q compiled=~q runtime=~q~n\", [I, T, X, Y]) )."]
    n = 0
    exprs = []
    for op in BIN:
        for a in VALS:
            for b in VALS:
                if op in ("^", "**", "<<", ">>") and len(b.strip("()-")) > 3:
                    continue      # astronomically large results: not evaluated
                exprs.append(term(op, [a, b]))
    for op in UN:
        for a in VALS:
            exprs.append(term(op, [a]))
    exprs += ["pi", "e", "epsilon", "(pi * 2)", "(e + 1)"]
    for i, t in enumerate(exprs):
        lines.append("t(%d) :- catch(X is %s, error(E, _), X = err(E)), T = %s, catch(Y is T, error(F, _), Y = err(F)), cmp(%d, T, X, Y)." % (i, t, t, i))
    # operands that exist only as COMPUTED values: the smallest / largest small integer held in a small-integer cell
    # (the reader makes the literal -36028797018963968 a big integer), and the first big integer reached by an addition
    CV = ["(-36028797018963967 - 1)", "(36028797018963966 + 1)", "(36028797018963967 + 1)", "(3 - 1)"]
    BIN2 = ["+", "-", "*", "//", "div", "mod", "rem", "max", "min", "gcd", "/\\", "\\/", "xor", ">>", "<<"]
    comp = []
    for op in UN:
        for a in CV:
            comp.append(("A is %s" % a, term(op, ["A"])))
    for op in BIN2:
        for a in CV:
            for b in (["1", "2"] if op in (">>", "<<") else ["(-1)", "2", "A"]):
                comp.append(("A is %s" % a, term(op, ["A", b])))
                if op not in (">>", "<<") and b != "A":
                    comp.append(("A is %s" % a, term(op, [b, "A"])))
    base_n = len(exprs)
    for k, (pre, t) in enumerate(comp):
        i = base_n + k
        lines.append("t(%d) :- %s, catch(X is %s, error(E, _), X = err(E)), T = %s, catch(Y is T, error(F, _), Y = err(F)), cmp(%d, T, X, Y)." % (i, pre, t, t, i))
    exprs = exprs + ["%s, X is %s" % c for c in comp]
    lines.append("main :- between(0, %d, I), catch(t(I), _, true), fail." % (len(exprs) - 1))
    lines.append("main :- halt.")
    lines.append(":- use_module(library(between)).")
    lines.append(":- initialization(main).")
    path = os.path.join(scratch, "replay_paths.pl")
    open(path, "w").write("\n".join(lines) + "\n")
    p = subprocess.run([binary, "-f", "--no-add-history", path], capture_output=True, text=True, timeout=240, stdin=subprocess.DEVNULL)
    fails = []
    for line in p.stdout.split("\n"):
        m = re.match(r"MISMATCH (\d+) (.*) compiled=(.*) runtime=(.*)$", line)
        if m:
            fails.append({"goal": "X is " + m.group(2), "got": ["runtime", m.group(4)], "expected": ["compiled", m.group(3)], "op": m.group(2), "a": None, "b": None})
    if p.returncode != 0 and not fails:
        # the process died (panic): find the expressions that kill it, one process each (computed-operand phase only)
        clause = dict((int(re.match(r"t\((\d+)\)", l).group(1)), l) for l in lines if l.startswith("t("))
        def dies(idx):
            one = os.path.join(scratch, "replay_paths_one.pl")
            body = [clause[i] for i in idx] + ["main :- member(I, %s), catch(t(I), _, true), fail." % list(idx), "main :- halt.", ":- use_module(library(lists)).", ":- initialization(main)."]
            open(one, "w").write("\n".join(lines[:3] + body) + "\n")
            q = subprocess.run([binary, "-f", "--no-add-history", one], capture_output=True, text=True, timeout=120, stdin=subprocess.DEVNULL)
            return q.returncode != 0, (q.stderr or "")[-200:].strip()
        todo = list(range(base_n, len(exprs)))
        for c0 in range(0, len(todo), 32):
            chunk = todo[c0:c0 + 32]
            bad, _ = dies(chunk)
            if not bad:
                continue
            for i in chunk:
                b1, err = dies([i])
                if b1:
                    fails.append({"goal": exprs[i], "got": ["crash", err], "expected": ["v", "a number or an error term, the same on both paths"], "op": exprs[i], "a": None, "b": None})
                    if len(fails) >= 3:
                        break
            if len(fails) >= 3:
                break
    log.append("two-path replay: %d expressions, %d mismatches (exit %s)" % (len(exprs), len(fails), p.returncode))
    more = clause_phase(binary, scratch, log)
    if more is None and not fails:
        return {ob: None for ob in by_ob}
    fails = fails + (more or [])
    more2 = alias_phase(binary, scratch, log)
    fails = fails + (more2 or [])
    return {ob: fails for ob in by_ob}


# ---- clause-shaped contexts: the operands are head arguments (temporaries living in argument registers), the goal is an
# inlined comparison or is/2 with compound operands, and the variables are used again afterwards. The compiled clause must
# give the answer the same goals give when each is called through call/1 (run-time evaluator, no register allocation).
SIDES = ["A", "B", "A+1", "B+1", "abs(A)", "A*B", "3+4", "7", "-A", "A-B"]
CMPS = ["<", "=:=", ">="]
FOLLOW = ["X = r(A,B)", "X is A+B", "A =< B+100, X = r(A,B)", "X is -(A*2) + B"]
HEADS = ["(A, B, X)", "(B, A, X)", "(X, A, B)"]
PAIRS = [(10, 3), (-5, 2), (0, 0), (1, 3), (3, 1), (7, 7)]


def clause_phase(binary, scratch, log):
    lines = [":- use_module(library(format)).", ":- use_module(library(lists)).", ":- use_module(library(between)).",
             "run((G1, G2)) :- !, run(G1), run(G2).", "run(G) :- call(G).",
             "res(G, X, R) :- ( catch(G, error(E, _), R = err(E)) -> ( var(R) -> R = yes(X) ; true ) ; R = no ).",
             "cmp(K, A, B, C, R) :- ( C == R -> true ; format(\"MISMATCH ~d ~q compiled=~q runtime=~q~n\", [K, A-B, C, R]) )."]
    bodies, tail, tail2 = [], [], []
    k = 0
    for l in SIDES:
        for r in SIDES:
            if "A" not in l + r and "B" not in l + r:
                continue
            for op in CMPS:
                for f in FOLLOW:
                    h = HEADS[k % len(HEADS)]
                    body = "%s %s %s, %s" % (l, op, r, f)
                    lines.append("c%d%s :- %s." % (k, h, body))
                    tail.append("b(%d, A, B, X, (%s))." % (k, body))
                    tail2.append("h(%d, A, B, X, c%d%s)." % (k, k, h))
                    bodies.append((h, body))
                    k += 1
    # the same comparisons after is/2 or a call: the variables are permanent, a literal or a temporary may come first
    SIDES2 = ["T", "A", "B", "0", "1.0", "T+1", "A+B", "3+4", "-T"]
    PRE = ["T is A+1", "T is A+1, nop", "nop, T = A"]
    for pre in PRE:
        for l in SIDES2:
            for r in SIDES2:
                if "T" not in l + r and "A" not in l + r and "B" not in l + r:
                    continue
                for op in ("<", ">=", "=:="):
                    for f in ("X = r(A,B,T)", "\\+ %s %s %s, X = n(T)" % (r, op, l), "X is T+B"):
                        h = HEADS[k % len(HEADS)]
                        body = "%s, %s %s %s, %s" % (pre, l, op, r, f)
                        lines.append("c%d%s :- %s." % (k, h, body))
                        tail.append("b(%d, A, B, X, (%s))." % (k, body))
                        tail2.append("h(%d, A, B, X, c%d%s)." % (k, k, h))
                        bodies.append((h, body))
                        k += 1
    lines.append("nop.")
    lines += tail + tail2
    lines.append("pair(A, B) :- member(A-B, [%s])." % ", ".join("(%d)-(%d)" % p for p in PAIRS))
    lines.append("main :- between(0, %d, K), pair(A, B), h(K, A, B, X, G), res(G, X, C), b(K, A, B, Y, Body), res(run(Body), Y, R), cmp(K, A, B, C, R), fail." % (k - 1))
    lines.append("main :- write('DONE'), nl, halt.")
    lines.append(":- initialization(main).")
    path = os.path.join(scratch, "replay_paths_clauses.pl")
    open(path, "w").write("\n".join(lines) + "\n")
    p = subprocess.run([binary, "-f", "--no-add-history", path], capture_output=True, text=True, timeout=900, stdin=subprocess.DEVNULL)
    fails, n = [], 0
    for line in p.stdout.split("\n"):
        m = re.match(r"MISMATCH (\d+) (.*) compiled=(.*) runtime=(.*)$", line)
        if m:
            n += 1
            if len(fails) < 25:
                h, body = bodies[int(m.group(1))]
                fails.append({"goal": "p%s :- %s.   called with A-B = %s" % (h, body, m.group(2)), "got": ["compiled", m.group(3)], "expected": ["runtime", m.group(4)], "op": body, "a": None, "b": None})
    if "DONE" not in p.stdout and not fails:
        log.append("clause-shaped replay did not run to the end: " + (p.stdout + p.stderr)[-300:])
        return None
    log.append("clause-shaped replay: %d clauses x %d operand pairs, %d mismatches (exit %s)" % (k, len(PAIRS), n, p.returncode))
    return fails


# ---- aliasing: a compiled instruction may forward an operand object (a big integer or rational in the arena) into its
# target register; every later instruction must treat it as shared. Nested expressions over big operands are evaluated
# twice through the compiled clause and once at run time; the operands must be unchanged afterwards.
A_OUT = ["-", "+", "abs", "sign", "\\", "float", "truncate", "round", "ceiling", "floor", "float_integer_part", "float_fractional_part"]
A_IN = ["+ Y", "max(Y, 0)", "max(0, Y)", "min(Y, Z)", "max(Y, Z)", "floor(Y)", "round(Y)", "truncate(Y)", "ceiling(Y)", "abs(Y)", "- Y", "Y",
        "max(100000000000000000000, 1)", "min(-100000000000000000000, 1)", "+ (100000000000000000000)", "Y + 0", "Y * 1", "- (- Y)"]
A_FORMS = ["%(o)s", "%(o)s + Y", "Y - %(o)s", "%(o)s + (%(i)s)"]
A_PAIRS = [("2^70", "-(2^71)"), ("-(3^50)", "3^50"), ("1 rdiv 3", "-(2 rdiv 7)"), ("7", "-3"), ("2.5", "-0.5"), ("36028797018963968", "-36028797018963969")]


def alias_phase(binary, scratch, log):
    lines = [":- use_module(library(format)).", ":- use_module(library(lists)).", ":- use_module(library(between)).", ":- use_module(library(arithmetic)).",
             "res(G, X, R) :- ( catch(G, error(E, _), R = err(E)) -> ( var(R) -> R = yes(X) ; true ) ; R = no ).",
             "bad(K, W, P, A, B) :- format(\"MISMATCH ~d ~q ~q got=~q expected=~q~n\", [K, W, P, A, B])."]
    exprs, tail = [], []
    k = 0
    for o in A_OUT:
        for i in A_IN:
            oi = "%s(%s)" % (o, i) if o != "\\" else "\\(%s)" % i
            for f in A_FORMS:
                e = f % {"o": oi, "i": i}
                lines.append("a%d(Y, Z, X) :- X is %s." % (k, e))
                tail.append("ab(%d, Y, Z, (%s), a%d(Y, Z, X), X)." % (k, e, k))
                exprs.append(e)
                k += 1
    lines += tail
    lines.append("pair(Ye, Ze) :- member(Ye-Ze, [%s])." % ", ".join("(%s)-(%s)" % p for p in A_PAIRS))
    lines.append("main :- between(0, %d, K), pair(Ye, Ze), Y is Ye, Z is Ze, Yc is Ye, Zc is Ze, ab(K, Y, Z, T, G, X), "
                 "res(G, X, C1), copy_term(G-X, G2-X2), G2 = G, res(G2, X2, C2), res(R is T, R, Rt), "
                 "( C1 == Rt -> true ; bad(K, first_call, Ye-Ze, C1, Rt) ), ( C2 == Rt -> true ; bad(K, second_call, Ye-Ze, C2, Rt) ), "
                 "( Y == Yc, Z == Zc -> true ; bad(K, operand_changed, Ye-Ze, Y-Z, Yc-Zc) ), fail." % (k - 1))
    lines.append("main :- write('DONE'), nl, halt.")
    lines.append(":- initialization(main).")
    path = os.path.join(scratch, "replay_paths_alias.pl")
    open(path, "w").write("\n".join(lines) + "\n")
    p = subprocess.run([binary, "-f", "--no-add-history", path], capture_output=True, text=True, timeout=900, stdin=subprocess.DEVNULL)
    fails, n = [], 0
    for line in p.stdout.split("\n"):
        m = re.match(r"MISMATCH (\d+) (\S+) (.*) got=(.*) expected=(.*)$", line)
        if m:
            n += 1
            if len(fails) < 25:
                fails.append({"goal": "p(Y, Z, X) :- X is %s.   %s with Y-Z = %s" % (exprs[int(m.group(1))], m.group(2), m.group(3)), "got": ["compiled", m.group(4)], "expected": ["runtime", m.group(5)], "op": exprs[int(m.group(1))], "a": None, "b": None})
    if "DONE" not in p.stdout and not fails:
        if p.returncode != 0 and "syntax_error" not in (p.stdout + p.stderr):
            fails.append({"goal": "nested expressions over shared big operands (engine/replay_paths.py alias_phase)", "got": ["crash", (p.stderr or "")[-300:].strip()], "expected": ["v", "DONE"], "op": "alias", "a": None, "b": None})
        else:
            log.append("aliasing replay did not run to the end: " + (p.stdout + p.stderr)[-300:])
            return None
    log.append("aliasing replay: %d clauses x %d operand pairs, called twice, %d mismatches (exit %s)" % (k, len(A_PAIRS), n, p.returncode))
    return fails


def rerun(rec, repo):
    log = []
    r = replay_all(repo, {rec["obligation"]: []}, os.path.join(os.path.dirname(os.path.dirname(os.path.abspath(__file__))), ".scratch"), log)
    print("\n".join(log))
    for f in r[rec["obligation"]] or []:
        print("STILL DIFFERS:", f["goal"], f["got"], f["expected"])
    return 1 if r[rec["obligation"]] else 0
