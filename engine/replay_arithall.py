"""Oracle sweep for C01: the integer grid of engine/replay_arith.py (exact oracle: Python integers) for every function of
the grid at once. Used when functions of the anchor files change outside the contracts, and by the thorough tier."""
import os
import replay_arith


def replay_all(repo, by_ob, scratch, log):
    os.makedirs(scratch, exist_ok=True)
    fails = replay_arith.replay(repo, sorted(replay_arith.FN_OPS), scratch, log)
    return {ob: fails for ob in by_ob}


def rerun(rec, repo):
    log = []
    r = replay_all(repo, {rec["obligation"]: []}, os.path.join(os.path.dirname(os.path.dirname(os.path.abspath(__file__))), ".scratch", "replay"), log)
    print("\n".join(log))
    for f in r[rec["obligation"]] or []:
        print("STILL FAILS:", f["goal"], f["got"], f["expected"])
    return 1 if r[rec["obligation"]] else 0
