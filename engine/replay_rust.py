"""Replay by an injected Rust test: the scratch copy of /repo gets a `#[cfg(test)] mod verif_replay`
appended to the file under test (add-only), and `cargo test` runs it. Each test prints lines
`REPLAY-FAIL <description>` for concrete failing inputs."""
import os, re, shutil, subprocess, tempfile, time

HEAP_TEST = r'''
#[cfg(test)]
mod verif_replay {
    use super::*;

    // every fill level around an exact fit: after any operation the heap must not claim (or have
    // written) more bytes than it reserved
    #[test]
    fn heap_capacity_discipline() {
        for n in 1..=33usize {
            let s: String = std::iter::repeat('a').take(n).collect();
            let cells = Heap::compute_pstr_size(&s) + 8; // allocate_pstr reserves this many *cells*
            let mut heap = match Heap::with_cell_capacity(cells) { Ok(h) => h, Err(_) => continue };
            let cap0 = heap.inner.byte_cap;
            if heap.allocate_pstr(&s).is_err() || heap.inner.byte_cap != cap0 { continue; }
            // fill with cells until exactly `copy_size` bytes are free
            let align = 8 - n % 8;
            let copy_size = n + align;
            while heap.inner.byte_cap - heap.inner.byte_len > copy_size {
                let _ = heap.push_cell(HeapCellValue::build_with(HeapCellValueTag::Fixnum, 0));
            }
            if heap.inner.byte_cap != cap0 || heap.inner.byte_cap - heap.inner.byte_len != copy_size { continue; }
            let len0 = heap.inner.byte_len;
            let r = heap.copy_pstr_within(0);
            if heap.inner.byte_len > heap.inner.byte_cap {
                println!("REPLAY-FAIL copy_pstr_within: string of {} bytes, capacity {} bytes, fill {} bytes (free {} == bytes copied + padding): byte_len {} > byte_cap {} after the call (result ok={})",
                         n, cap0, len0, copy_size, heap.inner.byte_len, heap.inner.byte_cap, r.is_ok());
                // keep the allocator from unwinding over a corrupted length
                heap.inner.byte_len = heap.inner.byte_cap;
            }
        }
        // a granted reservation must fit: `reserve(n)` may only succeed with 8n bytes free
        for cells in 1..=4usize {
            for req in 0..=64usize {
                let mut heap = match Heap::with_cell_capacity(cells) { Ok(h) => h, Err(_) => continue };
                let ok = heap.reserve(req).is_ok();
                let free = heap.inner.byte_cap - heap.inner.byte_len;
                if ok && free < 8 * req {
                    println!("REPLAY-FAIL reserve: capacity {} cells, reserve({}) granted with only {} bytes free (needs {})", cells, req, free, 8 * req);
                }
            }
        }
        // strings with interior NUL characters (every segment after the first costs a link cell) allocated at every fill
        // level near the end of the capacity
        for text in ["a\u{0}b", "a\u{0}a\u{0}a\u{0}a\u{0}a\u{0}a\u{0}", "ab\u{0}cd", "\u{0}a", "a\u{0}\u{0}b", "abcdefgh\u{0}abcdefgh\u{0}x", "a\u{0}a\u{0}a\u{0}a\u{0}a\u{0}a\u{0}a\u{0}a\u{0}a\u{0}a\u{0}a\u{0}a\u{0}"] {
            for free_cells in 0..=40usize {
                for cstr in [false, true] {
                    let mut heap = match Heap::with_cell_capacity(64) { Ok(h) => h, Err(_) => continue };
                    let cap0 = heap.inner.byte_cap;
                    if 8 * free_cells > cap0 { continue; }
                    while heap.inner.byte_cap - heap.inner.byte_len > 8 * free_cells {
                        let _ = heap.push_cell(HeapCellValue::build_with(HeapCellValueTag::Fixnum, 0));
                    }
                    if heap.inner.byte_cap != cap0 { continue; }
                    let ok = if cstr { heap.allocate_cstr(text).is_ok() } else { heap.allocate_pstr(text).is_ok() };
                    if heap.inner.byte_len > heap.inner.byte_cap {
                        println!("REPLAY-FAIL {}: text {:?} with {} cells free of {}: byte_len {} > byte_cap {} after the call (result ok={})",
                                 if cstr { "allocate_cstr" } else { "allocate_pstr" }, text, free_cells, cap0 / 8, heap.inner.byte_len, heap.inner.byte_cap, ok);
                        heap.inner.byte_len = heap.inner.byte_cap;
                    }
                }
            }
        }
        // list construction through a reserved section, at every fill level around the exact fit
        for size in 0..=12usize {
            for slack in 0..=3usize {
                let mut heap = match Heap::with_cell_capacity(64) { Ok(h) => h, Err(_) => continue };
                let cap0 = heap.inner.byte_cap;
                let want_free = 8 * (2 * size + slack);
                if want_free > cap0 { continue; }
                while heap.inner.byte_cap - heap.inner.byte_len > want_free {
                    let _ = heap.push_cell(HeapCellValue::build_with(HeapCellValueTag::Fixnum, 0));
                }
                if heap.inner.byte_cap != cap0 { continue; }
                let len0 = heap.inner.byte_len;
                let r = sized_iter_to_heap_list(&mut heap, size, (0..size).map(|_| HeapCellValue::build_with(HeapCellValueTag::Fixnum, 0)));
                if heap.inner.byte_len > heap.inner.byte_cap {
                    println!("REPLAY-FAIL sized_iter_to_heap_list: {} elements with {} bytes free of {}: byte_len {} > byte_cap {} after the call (result ok={})",
                             size, cap0 - len0, cap0, heap.inner.byte_len, heap.inner.byte_cap, r.is_ok());
                    heap.inner.byte_len = heap.inner.byte_cap;
                } else if r.is_ok() && size > 0 && heap.inner.byte_len != len0 + 8 * (2 * size + 1) {
                    println!("REPLAY-FAIL sized_iter_to_heap_list: {} elements wrote {} bytes, expected {}", size, heap.inner.byte_len - len0, 8 * (2 * size + 1));
                }
            }
        }
        for cells in 0..=6usize {
            let mut heap = match Heap::with_cell_capacity(cells.max(1)) { Ok(h) => h, Err(_) => continue };
            for _ in 0..(3 * cells + 3) {
                let _ = heap.push_cell(HeapCellValue::build_with(HeapCellValueTag::Fixnum, 0));
                if heap.inner.byte_len > heap.inner.byte_cap { println!("REPLAY-FAIL push_cell: byte_len {} > byte_cap {}", heap.inner.byte_len, heap.inner.byte_cap); break; }
            }
        }
    }

    // comparing two packed strings from any byte offset: the verdict is the code-point order of the
    // remaining texts, and a Continue result names the byte offset / the tail cell where each goes on
    #[repr(align(8))]
    struct Buf([u8; 64]);
    #[test]
    fn pstr_compare_agrees_with_char_lists() {
        let alphabet = ['a', 'b', '\u{e9}', '\u{20ac}', '\u{1f600}', '\u{10348}', '\u{f0000}'];
        let mut texts: Vec<String> = vec![String::new()];
        for &c in &alphabet { texts.push(c.to_string()); }
        for &c in &alphabet { for &d in &alphabet { texts.push([c, d].iter().collect()); } }
        for &c in &['a', '\u{1f600}'] { for &d in &alphabet { for &e in &['b', '\u{10348}'] { texts.push([c, d, e].iter().collect()); } } }
        let mut fails = 0;
        for t1 in &texts { for t2 in &texts { for o1 in 0..8usize { for o2 in 0..8usize {
            let mut b1 = Buf([0u8; 64]); let mut b2 = Buf([0u8; 64]);
            b1.0[o1..o1 + t1.len()].copy_from_slice(t1.as_bytes());
            b2.0[o2..o2 + t2.len()].copy_from_slice(t2.as_bytes());
            let (s1, s2) = (&b1.0[o1..], &b2.0[o2..]);
            let mut p = 0; while p < t1.len() && p < t2.len() && s1[p] == s2[p] { p += 1; }
            let (e1, e2) = (p == t1.len(), p == t2.len());
            let want = if e1 || e2 {
                format!("Continue({}, {})",
                    if e1 { format!("TailIndex({})", Heap::pstr_tail_idx(o1 + p) - o1 / 8) } else { format!("PStrOffset({})", p) },
                    if e2 { format!("TailIndex({})", Heap::pstr_tail_idx(o2 + p) - o2 / 8) } else { format!("PStrOffset({})", p) })
            } else if t1.as_str() < t2.as_str() { "Less".to_string() } else { "Greater".to_string() };
            let got = match std::panic::catch_unwind(|| format!("{:?}", compare_pstr_slices(s1, s2))) { Ok(g) => g, Err(_) => "PANIC".to_string() };
            if got != want && fails < 12 {
                fails += 1;
                println!("REPLAY-FAIL compare_pstr_slices: {:?} at byte offset {} of its cell against {:?} at offset {}: got {} expected {}", t1, o1, t2, o2, got, want);
            }
        }}}}
    }
}
'''

CHARREADER_TEST = r'''
#[cfg(test)]
mod verif_replay {
    use super::*;
    // `fail` marks chunks whose first read attempt fails with an I/O error (the data arrives at the retry)
    struct Chunks { data: Vec<Vec<u8>>, i: usize, fail: Vec<bool> }
    impl Read for Chunks {
        fn read(&mut self, buf: &mut [u8]) -> io::Result<usize> {
            if self.i >= self.data.len() { return Ok(0); }
            if self.i < self.fail.len() && self.fail[self.i] { self.fail[self.i] = false; return Err(io::Error::new(io::ErrorKind::Other, "injected")); }
            let c = &self.data[self.i]; self.i += 1;
            buf[..c.len()].copy_from_slice(c); Ok(c.len())
        }
    }
    // reference decoding with std: characters, and for each invalid sequence the bytes std reports
    fn reference(mut b: &[u8]) -> Vec<String> {
        let mut out = vec![];
        while !b.is_empty() {
            match std::str::from_utf8(b) {
                Ok(s) => { for c in s.chars() { out.push(format!("{:?}", c)); } break; }
                Err(e) => {
                    let v = e.valid_up_to();
                    for c in std::str::from_utf8(&b[..v]).unwrap().chars() { out.push(format!("{:?}", c)); }
                    let n = e.error_len().unwrap_or(b.len() - v);
                    out.push(format!("ERR{:?}", &b[v..v + n]));
                    b = &b[v + n..];
                }
            }
        }
        out
    }
    fn run(bytes: &[u8], cuts: &[usize], putback: bool) -> Result<Vec<String>, ()> { run_f(bytes, cuts, putback, false) }
    fn run_f(bytes: &[u8], cuts: &[usize], putback: bool, failing: bool) -> Result<Vec<String>, ()> {
        let mut chunks = vec![]; let mut s = 0;
        for &c in cuts { if c > s && c < bytes.len() { chunks.push(bytes[s..c].to_vec()); s = c; } }
        chunks.push(bytes[s..].to_vec());
        std::panic::catch_unwind(move || {
            let nchunks = chunks.len();
            let mut rd = CharReader::new(Chunks { data: chunks, i: 0, fail: if failing { vec![true; nchunks] } else { vec![] } });
            let mut out = vec![];
            for _ in 0..80 {
                if putback { if let Some(Ok(c)) = rd.peek_char() { let _ = rd.read_char(); rd.put_back_char(c); } }
                match rd.read_char() {
                    None => break,
                    Some(Ok(c)) => out.push(format!("{:?}", c)),
                    Some(Err(e)) if e.kind() == io::ErrorKind::Other && e.get_ref().map(|x| x.to_string()) == Some("injected".to_string()) => { continue; }
                    Some(Err(e)) => {
                        let n = e.get_ref().and_then(|x| x.downcast_ref::<BadUtf8Error>()).map(|b| b.bytes.clone()).unwrap_or_default();
                        out.push(format!("ERR{:?}", n)); rd.consume(n.len().max(1));
                    }
                }
            }
            out
        }).map_err(|_| ())
    }
    #[test]
    fn decoding_is_independent_of_chunking() {
        std::panic::set_hook(Box::new(|_| {}));
        let alphabet: [u8; 6] = [b'a', 0xe2, 0x82, 0xac, 0xff, 0xf0];
        let mut fails = 0;
        // every sequence-length class at its boundaries (first and last code point of each length, the last code point
        // of all, surrogates, overlong and too-large encodings, truncated sequences), alone and between two letters
        let mut specials: Vec<Vec<u8>> = vec![];
        for cp in [0x00u32, 0x7f, 0x80, 0x7ff, 0x800, 0xd7ff, 0xe000, 0xffff, 0x10000, 0x3ffff, 0x40000, 0xfffff, 0x100000, 0x10ffff] {
            let s = char::from_u32(cp).unwrap().to_string().into_bytes();
            specials.push(s.clone());
            let mut t = vec![b'x']; t.extend_from_slice(&s); t.push(b'y'); specials.push(t);
            let mut u = s.clone(); u.extend_from_slice(&s); specials.push(u);
            for cut in 1..s.len() { let mut w = s[..cut].to_vec(); w.push(b'z'); specials.push(w); specials.push(s[..cut].to_vec()); }
        }
        for bad in [&[0xf4u8, 0x90, 0x80, 0x80][..], &[0xf5, 0x80, 0x80, 0x80], &[0xf8, 0x88, 0x80, 0x80], &[0xc0, 0x80], &[0xc1, 0xbf], &[0xed, 0xa0, 0x80], &[0xed, 0xbf, 0xbf],
                    &[0xe0, 0x80, 0x80], &[0xf0, 0x80, 0x80, 0x80], &[0xf4, 0x8f, 0xbf], &[0xf4, 0x8f], &[0xf4], &[0x80], &[0xbf, 0x61]] {
            specials.push(bad.to_vec());
            let mut t = vec![b'x']; t.extend_from_slice(bad); t.push(b'y'); specials.push(t);
        }
        for v in &specials {
            let len = v.len();
            let expect = reference(v);
            for mask in 0..(1usize << (len.max(1) - 1)) {
                let cuts: Vec<usize> = (1..len).filter(|i| mask & (1 << (i - 1)) != 0).collect();
                for &pb in &[false, true] {
                    let got = run(v, &cuts, pb);
                    let ok = match &got { Ok(g) => *g == expect, Err(_) => false };
                    if !ok && fails < 12 {
                        fails += 1;
                        println!("REPLAY-FAIL bytes {:?} split at {:?} putback={}: got {} expected {:?}", v, cuts, pb,
                                 match &got { Ok(g) => format!("{:?}", g), Err(_) => "PANIC".to_string() }, expect);
                    }
                }
            }
        }
        if fails >= 12 { return; }
        for len in 1..=6usize {
            let total = 6usize.pow(len as u32);
            for code in 0..total {
                let mut v = vec![]; let mut c = code;
                for _ in 0..len { v.push(alphabet[c % 6]); c /= 6; }
                let expect = reference(&v);
                for mask in 0..(1usize << (len - 1)) {
                    let cuts: Vec<usize> = (1..len).filter(|i| mask & (1 << (i - 1)) != 0).collect();
                    for &pb in &[false, true] {
                        let got = run(&v, &cuts, pb);
                        let ok = match &got { Ok(g) => *g == expect, Err(_) => false };
                        if !ok && fails < 12 {
                            fails += 1;
                            println!("REPLAY-FAIL bytes {:?} split at {:?} putback={}: got {} expected {:?}", v, cuts, pb,
                                     match &got { Ok(g) => format!("{:?}", g), Err(_) => "PANIC".to_string() }, expect);
                        }
                    }
                    if fails >= 12 { return; }
                    // a failed read must deliver nothing: every chunk's first read attempt fails, the retry succeeds
                    if len <= 4 {
                        let got = run_f(&v, &cuts, false, true);
                        let ok = match &got { Ok(g) => *g == expect, Err(_) => false };
                        if !ok && fails < 12 {
                            fails += 1;
                            println!("REPLAY-FAIL bytes {:?} split at {:?}, first read of every chunk fails with an I/O error: got {} expected {:?}", v, cuts,
                                     match &got { Ok(g) => format!("{:?}", g), Err(_) => "PANIC".to_string() }, expect);
                        }
                    }
                }
            }
        }
    }
}
'''

FAMILIES = {
    "charreader": {"file": "src/parser/char_reader.rs", "module": CHARREADER_TEST, "filter": "verif_replay"},
    "heap": {"file": "src/machine/heap.rs", "module": HEAP_TEST, "filter": "verif_replay"},
}


def run_family(repo, fam, log, extra_module=None):
    cfg = FAMILIES[fam]
    work = tempfile.mkdtemp(prefix="verif-replay-", dir=os.environ.get("VERIF_TMP", "/var/tmp"))
    try:
        tree = os.path.join(work, "tree")
        subprocess.run(["rsync", "-a", "--exclude", "/target", "--exclude", "/.git", repo.rstrip("/") + "/", tree + "/"], check=True)
        src = os.path.join(repo, cfg["file"])
        orig = open(src, encoding="utf-8").read()
        new = orig + "\n" + (extra_module or cfg["module"]) + "\n"
        open(os.path.join(tree, cfg["file"]), "w", encoding="utf-8").write(new)
        assert new.startswith(orig)
        env = dict(os.environ, CARGO_NET_OFFLINE="true", CARGO_TARGET_DIR=os.environ.get("CARGO_TARGET_DIR") or os.path.join(repo, "target"))
        t0 = time.time()
        p = subprocess.run(["cargo", "test", "--offline", "--lib", cfg["filter"], "--", "--nocapture", "--test-threads", "1"],
                           cwd=tree, capture_output=True, text=True, env=env, timeout=3600)
        log.append("cargo test --lib %s on the scratch copy: exit %d in %.0fs" % (cfg["filter"], p.returncode, time.time() - t0))
        out = p.stdout + "\n" + p.stderr
        fails = [l.strip()[len("REPLAY-FAIL "):] for l in out.split("\n") if l.strip().startswith("REPLAY-FAIL ")]
        if p.returncode != 0 and not fails:
            m = re.search(r"panicked at (.*)", out)
            if m and "verif_replay" in out:
                fails.append("test panicked: " + m.group(1)[:300])
            elif "error" in out and "could not compile" in out:
                log.append("replay test did not compile: " + out[-800:])
                return None
        return fails
    finally:
        shutil.rmtree(work, ignore_errors=True)


def replay_all(repo, by_ob, scratch, log, fam):
    fails = run_family(repo, fam, log)
    out = {}
    for ob in by_ob:
        fn = ob.split("::")[1] if "::" in ob else ob
        key = fn.split("_", 1)[1] if "_" in fn else fn
        if fails is None:
            out[ob] = None
        else:
            sel = [{"goal": f, "got": ["fail", f], "expected": ["ok", "the behaviour named in goal"], "op": key, "a": None, "b": None} for f in fails if key in f or True]
            out[ob] = sel
    return out
