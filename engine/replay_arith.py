"""Replay of a failed arithmetic obligation against the real binary.

Verus gives no counterexample, so candidate operands come from the boundary grid
the contracts' case splits induce (DESIGN.md 2.7). Each candidate is evaluated by
scryer-prolog built from /repo's current working tree and compared with an exact
Python oracle. Concrete execution is used only here, to exhibit a failing input
for an obligation the verifier already refuted."""
import math, os, re, subprocess, sys, tempfile, json, time
from fractions import Fraction

ROOT = os.path.dirname(os.path.dirname(os.path.abspath(__file__)))

B = [0, 1, -1, 2, -2, 3, -3, 7, -7, 10, 2**31 - 1, 2**31, -2**31, -2**31 - 1, 2**32,
     2**55 - 1, 2**55, 2**55 + 1, -2**55, -2**55 - 1, -2**55 + 1, 2**56, -2**56,
     2**62, -2**62, 2**63 - 1, 2**63, -2**63, -2**63 - 1, 2**64, -2**64, 2**64 + 1, 2**100, -2**100, 3 * 2**54, -3 * 2**54,
     12345678901234567890123, -98765432109876543210]
SH = [0, 1, 2, 7, 8, 31, 32, 54, 55, 56, 57, 62, 63, 64, 65, 100, 127, 128, 2**32 - 1, 2**32, 2**32 + 1, 2**55, 2**64,
      -1, -2, -55, -56, -63, -64, -65, -100, -2**32, -2**64]
SMALLEXP = [0, 1, 2, 3, 5, 10, 31, 32, 54, 55, 56, 62, 63, 64, 65, 100, -1, -2, -3, 2**40]
FL = [0.0, -0.0, 1.0, -1.0, 0.5, -0.5, 1.5, -1.5, 2.5, -2.5, 1e308, -1e308, 5e-324, 2.0**55, -(2.0**55), 2.0**55 - 8, 2.0**63, -(2.0**63), 2.0**64, 3.0e19, 1e22, 1.7976931348623157e308, 4503599627370497.5, -4503599627370497.5, 36028797018963967.0, 36028797018963968.0, -36028797018963968.0, -36028797018963976.0]


def tdiv(a, b):
    q = abs(a) // abs(b)
    return q if (a >= 0) == (b > 0) else -q


def oracle_int(op, a, b=None):
    """returns ('v', int) or ('e', errname)"""
    try:
        if op == "+": return ("v", a + b)
        if op == "-": return ("v", a - b)
        if op == "*": return ("v", a * b)
        if op == "neg": return ("v", -a)
        if op == "abs": return ("v", abs(a))
        if op == "sign": return ("v", (a > 0) - (a < 0))
        if op == "\\": return ("v", ~a)
        if op == "//": return ("e", "zero_divisor") if b == 0 else ("v", tdiv(a, b))
        if op == "rem": return ("e", "zero_divisor") if b == 0 else ("v", a - b * tdiv(a, b))
        if op == "mod": return ("e", "zero_divisor") if b == 0 else ("v", a % b)
        if op == "div": return ("e", "zero_divisor") if b == 0 else ("v", a // b)
        if op == "<<":
            if b >= 0:
                if b > 4096 and a != 0: return ("skip", None)
                return ("v", a << b if b <= 4096 else 0)
            return ("v", a >> (-b))
        if op == ">>":
            if b >= 0: return ("v", a >> b)
            if -b > 4096 and a != 0: return ("skip", None)
            return ("v", a << (-b) if -b <= 4096 else 0)
        if op == "/\\": return ("v", a & b)
        if op == "\\/": return ("v", a | b)
        if op == "xor": return ("v", a ^ b)
        if op == "gcd": return ("v", math.gcd(a, b))
        if op == "max": return ("v", max(a, b))
        if op == "min": return ("v", min(a, b))
        if op == "^":
            if a == 0 and b < 0: return ("e", "undefined")
            if b < 0:
                if a == 1: return ("v", 1)
                if a == -1: return ("v", 1 if b % 2 == 0 else -1)
                return ("e", "type_error")
            if abs(a) > 1 and b > 4096: return ("skip", None)
            return ("v", a ** b)
    except (OverflowError, MemoryError):
        return ("skip", None)
    raise ValueError(op)


def pl_int(n):
    return "(%d)" % n if n < 0 else "%d" % n


# obligation function name -> list of (operator, kind)
FN_OPS = {
    "add": [("+", "bin")], "sub": [("-", "bin")], "mul": [("*", "bin")], "neg": [("neg", "un"), ("-", "bin")], "abs": [("abs", "un")],
    "idiv": [("//", "bin"), ("div", "bin")], "remainder": [("rem", "bin")], "modulus": [("mod", "bin"), ("div", "bin")],
    "ibig_rem_floor": [("mod", "bin"), ("div", "bin")], "int_floor_div": [("div", "bin")],
    "shl": [("<<", "sh"), (">>", "sh")], "shr": [(">>", "sh"), ("<<", "sh")], "checked_signed_shl": [("<<", "sh")],
    "and": [("/\\", "bin")], "or": [("\\/", "bin")], "xor": [("xor", "bin")], "bitwise_complement": [("\\", "un")],
    "int_pow": [("^", "pow")], "binary_pow": [("^", "pow")], "gcd": [("gcd", "bin")], "isize_gcd": [("gcd", "bin")],
    "max": [("max", "bin")], "min": [("min", "bin")], "sign": [("sign", "un")],
    "arena_from_i64": [("+", "bin"), ("*", "bin"), ("//", "bin")], "arena_from_isize": [("gcd", "bin")],
    "Number_is_zero": [("^", "pow"), ("sign", "un")], "Number_is_negative": [("sign", "un"), ("<<", "sh"), (">>", "sh")],
    "Number_is_positive": [("sign", "un")], "Number_is_integer": [("<<", "sh"), (">>", "sh")],
}


def expr(op, a, b=None):
    A = pl_int(a)
    if op == "neg": return "-(%s)" % A
    if op in ("abs", "sign"): return "%s(%s)" % (op, A)
    if op == "\\": return "\\(%s)" % A
    Bs = pl_int(b)
    if op in ("xor", "gcd", "max", "min"): return "%s(%s,%s)" % (op, A, Bs)
    return "%s %s %s" % (A, op, Bs)


def candidates(fn):
    out = []
    for op, kind in FN_OPS.get(fn, []):
        if kind == "un":
            for a in B: out.append((op, a, None))
        elif kind == "bin":
            for a in B:
                for b in B: out.append((op, a, b))
        elif kind == "sh":
            for a in B:
                for b in SH: out.append((op, a, b))
        elif kind == "pow":
            for a in [0, 1, -1, 2, -2, 3, -3, 10, 2**31, 2**55 - 1, 2**55, -2**55, 2**63, 2**64, -2**64 - 1]:
                for b in SMALLEXP: out.append((op, a, b))
    return out


def build_binary(repo, log):
    t0 = time.time()
    env = dict(os.environ, CARGO_NET_OFFLINE="true")
    p = subprocess.run(["cargo", "build", "--offline", "--bin", "scryer-prolog"], cwd=repo, capture_output=True, text=True, env=env, timeout=3600)
    log.append("cargo build --offline --bin scryer-prolog: exit %d in %.0fs" % (p.returncode, time.time() - t0))
    if p.returncode != 0:
        log.append(p.stderr[-2000:])
        return None
    return os.path.join(os.environ.get("CARGO_TARGET_DIR") or os.path.join(repo, "target"), "debug", "scryer-prolog")


PL_HEAD = """:- use_module(library(format)).
t(I, Expr) :- catch((X is Expr, format("~d v ~q~n", [I, X])), error(E, _), (E =.. [F|As], (As = [A1|_] -> true ; A1 = none), format("~d e ~q ~q~n", [I, F, A1]))).
main :- g(I, E), t(I, E), fail.
main :- halt.
:- initialization(main).
"""


def run_goals(binary, exprs, workdir, log, chunk=400):
    """exprs: list of expression strings; returns dict index -> ('v', text) | ('e', functor, arg) | ('crash', text)"""
    res = {}
    for c0 in range(0, len(exprs), chunk):
        part = exprs[c0:c0 + chunk]
        path = os.path.join(workdir, "replay_%d.pl" % c0)
        with open(path, "w") as f:
            for k, e in enumerate(part):
                f.write("g(%d, %s).\n" % (c0 + k, e))
            f.write(PL_HEAD)
        try:
            p = subprocess.run([binary, "-f", "--no-add-history", path], capture_output=True, text=True, timeout=300, stdin=subprocess.DEVNULL)
            out, err, rc = p.stdout, p.stderr, p.returncode
        except subprocess.TimeoutExpired as e:
            out, err, rc = (e.stdout or b"").decode() if isinstance(e.stdout, bytes) else (e.stdout or ""), "timeout", -9
        seen = set()
        for line in out.split("\n"):
            m = re.match(r"(\d+) (v|e) (.*)$", line)
            if m:
                i = int(m.group(1)); seen.add(i)
                res[i] = (m.group(2), m.group(3))
        if rc != 0 or len(seen) < len(part):
            # the process died (panic) at the first goal without output: find it and continue after it
            missing = [c0 + k for k in range(len(part)) if c0 + k not in seen]
            if missing:
                first = missing[0]
                res[first] = ("crash", (err or "")[-400:].strip() or "process exited %s without output" % rc)
                rest = exprs[first + 1:c0 + len(part)]
                if rest:
                    sub = run_goals(binary, [None] * (first + 1) + rest, workdir, log, chunk) if False else None
                # re-run the remainder individually chunked
                if rest:
                    path2 = os.path.join(workdir, "replay_%d_rest.pl" % first)
                    with open(path2, "w") as f:
                        for k, e in enumerate(rest):
                            f.write("g(%d, %s).\n" % (first + 1 + k, e))
                        f.write(PL_HEAD)
                    try:
                        p2 = subprocess.run([binary, "-f", "--no-add-history", path2], capture_output=True, text=True, timeout=300, stdin=subprocess.DEVNULL)
                        for line in p2.stdout.split("\n"):
                            m = re.match(r"(\d+) (v|e) (.*)$", line)
                            if m:
                                res[int(m.group(1))] = (m.group(2), m.group(3))
                    except subprocess.TimeoutExpired:
                        pass
    return res


def replay(repo, fns, workdir, log, binary=None):
    """fns: function names of the failed obligations. Returns list of failing inputs (dicts)."""
    binary = binary or build_binary(repo, log)
    if binary is None:
        return None
    cands = []
    seen = set()
    for fn in fns:
        for c in candidates(fn):
            if c not in seen:
                seen.add(c); cands.append(c)
    todo = []
    for (op, a, b) in cands:
        o = oracle_int(op, a, b)
        if o[0] == "skip":
            continue
        todo.append((op, a, b, o))
    exprs = [expr(op, a, b) for (op, a, b, o) in todo]
    out = run_goals(binary, exprs, workdir, log)
    fails = []
    for i, (op, a, b, o) in enumerate(todo):
        got = out.get(i)
        if got is None:
            continue
        ok = False
        if got[0] == "v" and o[0] == "v":
            ok = got[1].strip() == str(o[1])
        elif got[0] == "e" and o[0] == "e":
            ok = got[1].split()[0] == ("evaluation_error" if o[1] in ("zero_divisor", "undefined") else "type_error") and \
                 (o[1] == "type_error" or got[1].split()[1] == o[1])
        if not ok:
            fails.append({"goal": "X is " + exprs[i], "got": list(got), "expected": list(map(str, o)), "op": op, "a": a, "b": b})
    log.append("replayed %d candidate goals, %d disagree with the exact oracle" % (len(todo), len(fails)))
    return fails


# ---------------------------------------------------------------- float / mixed evaluation (C02) and comparison (C04)

def pl_float(f):
    s = repr(float(f))
    if "e" in s or "E" in s:
        m, e = s.lower().split("e")
        if "." not in m:
            m += ".0"
        s = m + "e" + str(int(e))
    elif "." not in s:
        s += ".0"
    return "(%s)" % s if f < 0 or (f == 0 and math.copysign(1, f) < 0) else s


def pl_num(x):
    if isinstance(x, float):
        return pl_float(x)
    if isinstance(x, Fraction):
        return "(%s rdiv %s)" % (pl_int(x.numerator), pl_int(x.denominator))
    return pl_int(x)


def to_f(x):
    try:
        return float(x)
    except OverflowError:
        return math.inf if x > 0 else -math.inf


def classify(z):
    if math.isnan(z): return ("e", "undefined")
    if math.isinf(z): return ("e", "float_overflow")
    return ("v", z)


FMIX = [0, 1, -1, 3, -7, 2**53, 2**53 + 1, -(2**53) - 1, 2**55, -2**55, 2**63, 2**64 + 1, 2**100, 10**400, -10**400,
        0.0, -0.0, 1.0, -1.0, 0.5, -1.5, 2.5, 1e308, -1e308, 5e-324, 2.0**53, 2.0**55, 36028797018963967.0, -36028797018963968.0, 1.7976931348623157e308,
        Fraction(1, 3), Fraction(-7, 2), Fraction(2**70 + 1, 2), Fraction(2**107 + 2**54 + 1, 2**108)]


def oracle_float(op, a, b=None):
    def conv(x):
        return ("v", x) if isinstance(x, float) else classify(to_f(x))
    try:
        if op in ("/", "+", "*", "-", "**", "atan2"):
            if op in ("+", "*", "-") and not (isinstance(a, float) or isinstance(b, float)):
                return ("skip", None)
            if op == "/" and ((b == 0) if not isinstance(b, float) else (b == 0.0)):
                return ("e", "zero_divisor")
            ca = conv(a)
            if ca[0] == "e": return ca
            cb = conv(b)
            if cb[0] == "e": return cb
            x, y = ca[1], cb[1]
            if op == "/": return classify(x / y) if y != 0 else ("e", "zero_divisor")
            if op == "+": return classify(x + y)
            if op == "-": return classify(x - y)
            if op == "*": return classify(x * y)
            return ("skip", None)
        if op == "float":
            return classify(to_f(a))
        if op == "sqrt":
            neg = (a < 0)
            if neg: return ("e", "undefined")
            c = classify(to_f(a))
            return c if c[0] == "e" else classify(math.sqrt(c[1]))
        if op in ("floor", "ceiling", "truncate", "round"):
            if isinstance(a, float):
                if op == "floor": return ("i", math.floor(a))
                if op == "ceiling": return ("i", math.ceil(a))
                if op == "truncate": return ("i", math.trunc(a))
                r = math.floor(abs(a) + 0.5) if abs(a) < 2**52 else abs(a)
                return ("i", int(math.copysign(r, a)))
            if isinstance(a, Fraction):
                if op == "floor": return ("i", math.floor(a))
                if op == "ceiling": return ("i", math.ceil(a))
                if op == "truncate": return ("i", math.trunc(a))
                return ("skip", None)
            return ("i", a)
    except (OverflowError, ValueError, ZeroDivisionError):
        return ("skip", None)
    return ("skip", None)


FLOAT_FN_OPS = {
    "lemma_dashu_ratio_to_f64_correctly_rounded": ["float", "+"], "lemma": ["float", "+"],
    "Number_div": ["/"], "div": ["/"], "add": ["+"], "mul": ["*"], "neg": ["-"], "float": ["float"], "sqrt": ["sqrt"],
    "floor": ["floor", "ceiling", "truncate"], "ceiling": ["ceiling"], "truncate": ["truncate"], "round": ["round"],
    "unary_float_fn_template": ["sqrt", "float"], "Number_is_zero": ["/"], "Number_is_negative": ["sqrt", "truncate"],
    "zero_divisor_eval_error": ["/"], "undefined_eval_error": ["sqrt"],
    # Kani float kernels
    "classify_float_spec": ["/", "+", "*", "float"], "add_f_spec": ["+"], "mul_f_spec": ["*"], "div_f_spec": ["/"], "float_fn_to_f_spec": ["float", "+"],
    "rnd_i_float": ["floor", "ceiling", "truncate", "round"], "rnd_i_nonfinite": ["floor"], "number_float_predicates": ["/", "sqrt", "truncate"],
}


def replay_float(repo, fns, workdir, log, binary=None):
    binary = binary or build_binary(repo, log)
    if binary is None:
        return None
    ops = []
    for fn in fns:
        for o in FLOAT_FN_OPS.get(fn, []):
            if o not in ops:
                ops.append(o)
    todo = []
    for op in ops:
        if op in ("/", "+", "*", "-"):
            for a in FMIX:
                for b in FMIX:
                    o = oracle_float(op, a, b)
                    if o[0] != "skip":
                        todo.append(("%s %s %s" % (pl_num(a), op, pl_num(b)), o))
        else:
            for a in FMIX + FL:
                o = oracle_float(op, a)
                if o[0] != "skip":
                    todo.append(("%s(%s)" % (op, pl_num(a)), o))
    out = run_goals(binary, [e for e, _ in todo], workdir, log)
    fails = []
    for i, (e, o) in enumerate(todo):
        got = out.get(i)
        if got is None:
            continue
        ok = False
        if got[0] == "crash":
            ok = False
        elif o[0] == "v" and got[0] == "v":
            try:
                g = float(got[1])
                # the sign of a zero result is not compared: the printer shows -0.0 as 0.0
                ok = (g == o[1]) and ("." in got[1] or "e" in got[1].lower() or "inf" in got[1].lower())
            except ValueError:
                ok = False
        elif o[0] == "i" and got[0] == "v":
            ok = got[1].strip() == str(o[1])
        elif o[0] == "e" and got[0] == "e":
            parts = got[1].split()
            ok = parts[0] == "evaluation_error" and parts[1] == o[1]
        if not ok:
            fails.append({"goal": "X is " + e, "got": list(got), "expected": [o[0], repr(o[1])], "op": e, "a": None, "b": None})
    log.append("replayed %d float/mixed goals, %d disagree with the IEEE oracle" % (len(todo), len(fails)))
    return fails


CMP_HEAD = """:- use_module(library(format)).
t(I, G) :- catch((call(G) -> R = true ; R = false), error(E, _), R = err(E)), format("~d v ~q~n", [I, R]).
main :- g(I, E), t(I, E), fail.
main :- halt.
:- initialization(main).
"""


def replay_cmp(repo, fns, workdir, log, binary=None):
    binary = binary or build_binary(repo, log)
    if binary is None:
        return None
    vals = [v for v in FMIX if not (isinstance(v, int) and abs(v) > 2**200)] + [2**55 - 1, -2**55 - 1, 2**62, 9007199254740993,
            0.75, 0.7500000000000001, Fraction((9 * 2**52 + 3) * 2**60 + 1, 3 * 2**114), Fraction(2**107 + 2**54 + 1, 2**108), 0.5000000000000001]
    if any(str(f_).startswith("lemma_dashu") for f_ in fns):
        # the obligation is about converting a RATIONAL to a double: floats against rationals only
        vals = [v for v in vals if isinstance(v, (float, Fraction))]
    todo = []
    for a in vals:
        for b in vals:
            if isinstance(a, float) or isinstance(b, float):
                x, y = (a if isinstance(a, float) else to_f(a)), (b if isinstance(b, float) else to_f(b))
            else:
                x, y = Fraction(a), Fraction(b)
            for op, fnc in (("=:=", lambda p, q: p == q), ("=\\=", lambda p, q: p != q), ("<", lambda p, q: p < q), ("=<", lambda p, q: p <= q), (">", lambda p, q: p > q), (">=", lambda p, q: p >= q)):
                todo.append(("%s %s %s" % (pl_num(a), op, pl_num(b)), fnc(x, y)))
    global PL_HEAD
    saved = PL_HEAD
    PL_HEAD = CMP_HEAD
    try:
        out = run_goals(binary, [e for e, _ in todo], workdir, log)
    finally:
        PL_HEAD = saved
    fails = []
    for i, (e, o) in enumerate(todo):
        got = out.get(i)
        if got is None:
            continue
        if not (got[0] == "v" and got[1].strip() == ("true" if o else "false")):
            fails.append({"goal": e, "got": list(got), "expected": ["v", "true" if o else "false"], "op": "cmp", "a": None, "b": None})
    log.append("replayed %d comparison goals, %d disagree with the exact/IEEE oracle" % (len(todo), len(fails)))
    return fails
