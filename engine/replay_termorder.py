"""Replay for C13 (standard order of terms): compare/3 on the real binary over pairs drawn from a pool of
atoms, numbers, compound terms, lists and strings (a string is the list of its characters), against an
oracle implementing the order of the property statement (ISO 7.2): Var < Float < Integer < Atom < Compound;
numbers of the same class by value; atoms alphabetically; compounds by arity, then name, then arguments left to right."""
import os, re, subprocess, itertools
import replay_arith

# term = ("a", name) | ("i", int) | ("f", float) | ("c", name, [args]) ; text is how it is written in the program
def atom(n): return ("a", n)
def lst(items, tail=("a", "[]")):
    t = tail
    for x in reversed(items):
        t = ("c", ".", [x, t])
    return t
def string(s): return lst([atom(c) for c in s])

POOL = [
    ("a", atom("a")), ("b", atom("b")), ("ab", atom("ab")), ("[]", atom("[]")), ("'A'", atom("A")),
    ("1", ("i", 1)), ("2", ("i", 2)), ("-1", ("i", -1)), ("1.0", ("f", 1.0)), ("2.5", ("f", 2.5)), ("36028797018963968", ("i", 2 ** 55)),
    ("f(a)", ("c", "f", [atom("a")])), ("f(b)", ("c", "f", [atom("b")])), ("g(a)", ("c", "g", [atom("a")])),
    ("f(a,b)", ("c", "f", [atom("a"), atom("b")])), ("f(b,a)", ("c", "f", [atom("b"), atom("a")])), ("f(a,a)", ("c", "f", [atom("a"), atom("a")])),
    ("[a]", lst([atom("a")])), ("[b]", lst([atom("b")])), ("[a,b]", lst([atom("a"), atom("b")])), ("[b,a]", lst([atom("b"), atom("a")])),
    ("[a,c]", lst([atom("a"), atom("c")])), ("[a|b]", lst([atom("a")], atom("b"))), ("[a,b,c]", lst([atom("a"), atom("b"), atom("c")])),
    ('"ab"', string("ab")), ('"ba"', string("ba")), ('"ac"', string("ac")), ('"a"', string("a")), ('"abc"', string("abc")), ('"abcdefghij"', string("abcdefghij")),
    ('"abcdefghiX"', string("abcdefghiX")), ("[a,b,c,d,e,f,g,h,i,j]", lst([atom(c) for c in "abcdefghij"])), ("[a,b,c,d,e,f,g,h,i,'X']", lst([atom(c) for c in "abcdefghiX"])),
    ("h(\"ab\",1)", ("c", "h", [string("ab"), ("i", 1)])), ("h([a,b],2)", ("c", "h", [lst([atom("a"), atom("b")]), ("i", 2)])), ("h([b,a],0)", ("c", "h", [lst([atom("b"), atom("a")]), ("i", 0)])),
]


def cat(t):
    return {"f": 1, "i": 2, "a": 3, "c": 4}[t[0]]


def cmp(x, y):
    cx, cy = cat(x), cat(y)
    if cx != cy:
        return -1 if cx < cy else 1
    if cx in (1, 2):
        vx, vy = x[1], y[1]
        return (vx > vy) - (vx < vy)
    if cx == 3:
        return (x[1] > y[1]) - (x[1] < y[1])
    ax, ay = len(x[2]), len(y[2])
    if ax != ay:
        return -1 if ax < ay else 1
    if x[1] != y[1]:
        return -1 if x[1] < y[1] else 1
    for p, q in zip(x[2], y[2]):
        c = cmp(p, q)
        if c:
            return c
    return 0


# every list literal also occurs as cells(List): the same list rebuilt cell by cell at run time (a list of
# characters written in the program may be stored as a packed string; append/3 produces real list cells)
POOL += [("cells(%s)" % txt, term) for txt, term in list(POOL) if txt.startswith("[") and txt != "[]"]

HEAD = r"""
:- use_module(library(format)).
:- use_module(library(lists)).
build(cells(Xs), L) :- !, append(Xs, [], L).
build(T, T).
t(I, X0, Y0) :- build(X0, X), build(Y0, Y), compare(O, X, Y), format("~d ~a~n", [I, O]).
main :- g(I, X, Y), t(I, X, Y), fail.
main :- halt.
:- initialization(main).
"""


def replay_all(repo, by_ob, scratch, log):
    binary = replay_arith.build_binary(repo, log)
    if not binary:
        return {ob: None for ob in by_ob}
    os.makedirs(scratch, exist_ok=True)
    pairs = list(itertools.product(range(len(POOL)), repeat=2))
    path = os.path.join(scratch, "replay_termorder.pl")
    with open(path, "w") as f:
        f.write(":- set_prolog_flag(double_quotes, chars).\n")
        for i, (a, b) in enumerate(pairs):
            f.write("g(%d, %s, %s).\n" % (i, POOL[a][0], POOL[b][0]))
        f.write(HEAD)
    p = subprocess.run([binary, "-f", "--no-add-history", path], capture_output=True, text=True, timeout=600, stdin=subprocess.DEVNULL)
    got = {}
    for line in p.stdout.split("\n"):
        m = re.match(r"(\d+) (\S+)$", line)
        if m:
            got[int(m.group(1))] = m.group(2)
    fails = []
    sym = {-1: "<", 0: "=", 1: ">"}
    for i, (a, b) in enumerate(pairs):
        want = sym[cmp(POOL[a][1], POOL[b][1])]
        if i in got and got[i] != want and len(fails) < 40:
            fails.append({"goal": "compare(O, %s, %s)" % (POOL[a][0], POOL[b][0]), "got": ["v", got[i]], "expected": ["v", want], "op": "compare", "a": POOL[a][0], "b": POOL[b][0]})
    log.append("compare/3 replay over %d pairs: %d disagreements (%d answers, exit %s)" % (len(pairs), len(fails), len(got), p.returncode))
    if len(got) < len(pairs) // 2:
        log.append("too few answers: " + (p.stderr or "")[-300:])
        return {ob: None for ob in by_ob}
    return {ob: fails for ob in by_ob}


def rerun(rec, repo):
    log = []
    r = replay_all(repo, {rec["obligation"]: []}, os.path.join(os.path.dirname(os.path.dirname(os.path.abspath(__file__))), ".scratch", "replay"), log)
    print("\n".join(log))
    for f in r[rec["obligation"]] or []:
        print("STILL FAILS:", f["goal"], "->", f["got"][1], "expected", f["expected"][1])
    return 1 if r[rec["obligation"]] else 0
