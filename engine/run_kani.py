"""Engine K back end: run `cargo kani` on the injected scratch tree, one process for all
selected harnesses, and turn the per-harness results into named obligations.

Verdict per harness:  SUCCESSFUL -> discharged;  FAILED with only unwinding-assertion /
unsupported-construct failures, timeout, out of memory, compiler error -> UNDECIDED (exit 2);
FAILED with any other failed check -> failed obligation (replayed by the caller)."""
import os, re, subprocess, sys, time, shutil, json, tempfile

HERE = os.path.dirname(os.path.abspath(__file__))
ROOT = os.path.dirname(HERE)
sys.path.insert(0, HERE)
import inject

IGNORED_CHECK_CLASSES = re.compile(r"NaN on |inf on |arithmetic overflow on floating-point")  # CBMC float side checks: not obligations (DESIGN 1.3)


def parse_output(out):
    """returns {harness: {"status", "failed": [descr], "checks": n, "time": s, "stubs": [...]}}.
    With -j the output of each harness is a block introduced by `Thread N:`; the thread's current
    harness is the one named in its last `Checking harness` line."""
    res = {}
    cur = None
    by_thread = {}
    def ensure(h):
        return res.setdefault(h, {"status": None, "failed": [], "checks": 0, "time": 0.0, "stubs": [], "notes": []})
    for line in out.split("\n"):
        m = re.match(r"(?:Thread (\d+): )?Checking harness (\S+?)\.\.\.", line)
        if m:
            h = m.group(2); ensure(h)
            if m.group(1) is not None:
                by_thread[m.group(1)] = h
            cur = h
            continue
        m = re.match(r"Thread (\d+):\s*(.*)$", line)
        if m:
            cur = by_thread.get(m.group(1), cur)
            line = m.group(2)
            if not line.strip():
                continue
        if cur is None:
            continue
        m = re.match(r"\s*\*\* (\d+) of (\d+) failed", line)
        if m:
            res[cur]["checks"] = int(m.group(2)); continue
        m = re.match(r"Failed Checks: (.*)$", line)
        if m:
            res[cur]["failed"].append(m.group(1).strip()); continue
        m = re.match(r"\s*- Stub: (.*)$", line)
        if m:
            res[cur]["stubs"].append(m.group(1).strip()); continue
        m = re.match(r"Verification Time: ([\d.]+)s", line)
        if m:
            res[cur]["time"] = float(m.group(1)); continue
        if re.match(r"CBMC (timed out|failed)|.*out of memory", line):
            res[cur]["notes"].append(line.strip()[:200]); continue
        m = re.match(r"VERIFICATION:- (\w+)", line)
        if m:
            res[cur]["status"] = m.group(1); continue
    return res


def run_groups(group_names, repo, scratch, tier, jobs=None, keep=False, only=None):
    t0 = time.time()
    groups = [inject.load_group(g) for g in group_names]
    out = {"obligations": [], "failed": [], "undecided": [], "assumptions": [], "functions": [], "bounds": [], "cmds": [], "solver_s": 0.0, "raw": ""}
    dev = os.environ.get("VERIF_KANI_WORKDIR")   # development only: reuse a persistent work dir (incremental builds)
    if dev:
        os.makedirs(dev, exist_ok=True); work = dev; keep = True
    else:
        work = tempfile.mkdtemp(prefix="verif-kani-", dir=os.environ.get("VERIF_TMP", "/var/tmp"))
    try:
        tree = os.path.join(work, "tree")
        try:
            inject.make_tree(repo, tree, fresh=not dev)
            rep = inject.inject(repo, tree, groups)
        except Exception as e:
            out["undecided"].append("kani injection failed (lost anchor?): %s" % e)
            return out
        harnesses = []
        meta = {}
        for g in groups:
            for h, hm in g["harnesses"].items():
                if hm.get("tier", "quick") == "thorough" and tier != "thorough":
                    continue
                if only and h not in only:
                    continue
                harnesses.append(h)
                meta[h] = dict(hm, group=g["name"])
            for a in g.get("assumptions", []):
                out["assumptions"].append("[kani:%s] %s" % (g["name"], a))
            for f in g.get("functions", []):
                out["functions"].append(dict(f, engine="kani", unit=g["name"], under_contract=True))
        jobs = jobs or min(8, max(1, len(harnesses)))
        cmd = ["cargo", "kani", "--no-default-features", "-Z", "function-contracts", "-Z", "stubbing", "-Z", "unstable-options",
               "--output-format", "terse", "-j", str(jobs), "--harness-timeout", "%ds" % (3000 if tier == "thorough" else 1800)]
        for h in harnesses:
            cmd += ["--harness", h]
        env = dict(os.environ, CARGO_NET_OFFLINE="true", CARGO_TARGET_DIR=os.path.join(work, "target"))
        out["cmds"].append(" ".join(cmd[:14]) + " --harness <%d harnesses>" % len(harnesses))
        try:
            p = subprocess.run(cmd, cwd=tree, capture_output=True, text=True, env=env, timeout=7200 if tier == "thorough" else 4800)
            raw = p.stdout + "\n" + p.stderr
        except subprocess.TimeoutExpired as e:
            raw = ((e.stdout or b"").decode(errors="replace") if isinstance(e.stdout, bytes) else (e.stdout or "")) + "\nTIMEOUT"
        out["raw"] = raw[-200000:]
        open(os.path.join(scratch, "kani.log"), "w").write(raw)
        res = parse_output(raw)
        out["per_harness"] = res
        if not res:
            tail = "\n".join(l[:300] for l in raw.strip().split("\n")[-15:])
            out["undecided"].append("cargo kani produced no harness results (compile error / ICE / timeout):\n" + tail)
        for h in harnesses:
            ob = "kani::%s::%s" % (meta[h]["group"], h)
            out["obligations"].append(ob)
            if meta[h].get("bound"):
                out["bounds"].append("%s: bounded -- %s" % (ob, meta[h]["bound"]))
            r = res.get(h) or res.get(h.split("::")[-1])
            if r is None:
                # harness names are printed fully qualified
                cands = [k for k in res if k.endswith("::" + h)]
                r = res[cands[0]] if cands else None
            if r is None:
                if res:
                    out["undecided"].append("%s: no result (timeout or harness not found)" % ob)
                continue
            out["solver_s"] += r["time"]
            for st in meta[h].get("stubs", []):
                if not any(st in s for s in r["stubs"]):
                    out["undecided"].append("%s: expected stub `%s` was not applied" % (ob, st))
            for s in r["stubs"]:
                out["assumptions"].append("[kani:%s] stub %s" % (meta[h]["group"], s))
            if r["status"] == "SUCCESSFUL":
                continue
            fails = [f for f in r["failed"] if not IGNORED_CHECK_CLASSES.search(f)]
            real = [f for f in fails if not re.search(r"unwinding assertion|not supported|unsupported|is not currently supported|reachable", f, re.I)]
            if r.get("notes") and not real:
                out["undecided"].append("%s: %s" % (ob, "; ".join(r["notes"])))
                continue
            if r["status"] == "FAILED" and not fails and r["failed"]:
                continue   # only ignored float side checks failed
            if real:
                out["failed"].append({"obligation": ob, "engine": "kani", "message": "; ".join(real)[:1500], "source": h, "at": meta[h].get("fn", ""), "rendered": ""})
            else:
                out["undecided"].append("%s: %s %s" % (ob, r["status"], "; ".join(fails)[:300]))
        # counterexamples: re-run each failed harness with concrete playback (bounded time)
        for f in out["failed"][:3]:
            h = f["source"]
            try:
                pc = subprocess.run(cmd[:12] + ["-Z", "concrete-playback", "--concrete-playback=print", "--harness", h, "--output-format", "terse"],
                                    cwd=tree, capture_output=True, text=True, env=env, timeout=900)
                txt = pc.stdout
                i = txt.find("Concrete playback unit test")
                f["rendered"] = txt[i:i + 3000] if i >= 0 else "(no concrete playback produced)"
                vals = re.findall(r"//\s*(-?[\w.]+)\s*\n\s*vec!\[([0-9, ]*)\]", f["rendered"])
                f["counterexample"] = [{"value": v, "bytes": b} for v, b in vals]
            except Exception as e:
                f["rendered"] = "(concrete playback failed: %s)" % e
        out["inject_report"] = rep
        return out
    finally:
        if not keep:
            shutil.rmtree(work, ignore_errors=True)
        out["wall_s"] = time.time() - t0


if __name__ == "__main__":
    import argparse
    ap = argparse.ArgumentParser()
    ap.add_argument("groups", nargs="+")
    ap.add_argument("--repo", default="/repo")
    ap.add_argument("--tier", default="quick")
    ap.add_argument("--keep", action="store_true")
    ap.add_argument("--only", nargs="*")
    a = ap.parse_args()
    sc = os.path.join(ROOT, ".scratch", "kani-dev")
    os.makedirs(sc, exist_ok=True)
    r = run_groups(a.groups, a.repo, sc, a.tier, keep=a.keep, only=a.only)
    for h, v in sorted(r.get("per_harness", {}).items()):
        print("  %-60s %-12s %6.1fs checks=%d" % (h[-60:], v["status"], v["time"], v["checks"]))
    print("obligations:", len(r["obligations"]), "solver_s: %.1f" % r["solver_s"], "wall: %.0f" % r.get("wall_s", 0))
    for f in r["failed"]:
        print("FAILED", f["obligation"], "|", f["message"][:300])
    for u in r["undecided"]:
        print("UNDECIDED", u[:1500])
