"""Further documented rewrite rules (loaded by extract.apply_rewrites by name)."""
import re
from rustlex import lex, text, is_sig, next_sig, prev_sig, match_close, Tok, OPEN
from extract import LostAnchor, _count, sig_idx, relex


def rw_boxed_error(toks, counts):
    """R4b: a boxed error-building closure

            Box::new(move |machine_st[: T]| { let X = machine_st.KIND(ARGS); let stub = S; machine_st.error_form(X, stub) }) [as Box<dyn ..>]

    keeps only its formal error term:  formal_gen(Formal::Eval(ARGS) | Formal::Type(ARGS) | Formal::Instantiation).
    Dropped: the error context `stub` (which functor the error is attributed to). A closure of any
    other shape is a lost anchor."""
    n = 0
    while True:
        si = sig_idx(toks)
        hit = None
        for a in range(len(si) - 6):
            if [toks[si[a + k]].text for k in range(5)] == ["Box", ":", ":", "new", "("]:
                o = si[a + 4]
                c = match_close(toks, o)
                inner = [i for i in range(o + 1, c) if is_sig(toks[i])]
                j = 0
                if toks[inner[j]].text == "move":
                    j += 1
                if toks[inner[j]].text != "|":
                    continue
                j += 1
                pname = toks[inner[j]].text
                while toks[inner[j]].text != "|":
                    j += 1
                j += 1
                if toks[inner[j]].text != "{":
                    raise LostAnchor("boxed closure without block body")
                bo = inner[j]
                bc = match_close(toks, bo)
                body = text(toks[bo + 1:bc])
                m = re.search(r"\b%s\s*\.\s*(evaluation_error|type_error|instantiation_error)\s*\(" % re.escape(pname), body)
                if not m or not re.search(r"\b%s\s*\.\s*error_form\s*\(" % re.escape(pname), body):
                    raise LostAnchor("boxed closure is not an error builder: %s" % body.strip()[:80])
                # argument list of the error constructor
                btoks = lex(body)
                k = None
                for x, t in enumerate(btoks):
                    if t.kind == "id" and t.text == m.group(1) and btoks[prev_sig(btoks, x - 1)].text == "." \
                            and btoks[next_sig(btoks, x + 1)].text == "(":
                        k = next_sig(btoks, x + 1); break
                args = text(btoks[k + 1:match_close(btoks, k)]).strip()
                # every statement must be a let or the final error_form call
                stmts = [s.strip() for s in body.split(";") if s.strip()]
                for s_ in stmts:
                    if not (s_.startswith("let ") or re.match(r"%s\s*\.\s*error_form\s*\(" % re.escape(pname), s_)):
                        raise LostAnchor("unexpected statement in error closure: %s" % s_[:60])
                kind = m.group(1)
                formal = {"evaluation_error": "Formal::Eval(%s)" % args, "type_error": "Formal::Type(%s)" % args,
                          "instantiation_error": "Formal::Instantiation"}[kind]
                end = c
                # optional `as Box<dyn ...>` cast
                nx = next_sig(toks, c + 1)
                if nx < len(toks) and toks[nx].text == "as":
                    k2 = next_sig(toks, nx + 1)
                    if toks[k2].text == "Box":
                        lt = next_sig(toks, k2 + 1)
                        d = 0
                        q = lt
                        while True:
                            if toks[q].text == "<":
                                d += 1
                            elif toks[q].text == ">" and toks[q - 1].text != "-":
                                d -= 1
                                if d == 0:
                                    break
                            q += 1
                        end = q
                hit = (si[a], end, formal)
                break
        if not hit:
            break
        s, e, formal = hit
        toks = relex(text(toks[:s] + lex("formal_gen(%s)" % formal) + toks[e + 1:]))
        n += 1
    _count(counts, "R4", n)
    return toks


def rw_iflet_ref_patterns(toks, counts):
    """R15b: `if let PAT = E {` where PAT contains a reference pattern `&(..)`/`&Path(..)`: the `&` is
    dropped (default binding mode), identifiers bound by value inside it are re-bound with
    `let x = *x;` at the head of the block, and identifiers bound with `ref x` simply lose the
    (now implicit) `ref`. Types and values of all bindings are unchanged."""
    n = 0
    while True:
        si = sig_idx(toks)
        hit = None
        for a in range(len(si) - 3):
            if toks[si[a]].text == "if" and toks[si[a + 1]].text == "let":
                # pattern: up to the `=` at depth 0
                b = a + 2
                d = 0
                while True:
                    t = toks[si[b]]
                    if t.kind == "p" and t.text in "([":
                        d += 1
                    elif t.kind == "p" and t.text in ")]":
                        d -= 1
                    elif t.kind == "p" and t.text == "=" and d == 0:
                        break
                    b += 1
                pat = si[a + 2:b]
                amp = None
                for x in range(len(pat) - 1):
                    if toks[pat[x]].text == "&" and toks[pat[x + 1]].text != "mut":
                        amp = x; break
                if amp is None:
                    continue
                # sub-pattern extent
                y = amp + 1
                if toks[pat[y]].text == "(":
                    end = match_close(toks, pat[y])
                else:
                    while y + 2 < len(pat) and toks[pat[y + 1]].text == ":" and toks[pat[y + 2]].text == ":":
                        y += 3
                    end = pat[y]
                    if y + 1 < len(pat) and toks[pat[y + 1]].text in "({":
                        end = match_close(toks, pat[y + 1])
                sub = [k for k in range(pat[amp] + 1, end + 1) if is_sig(toks[k])]
                binds, drop = [], [pat[amp]]
                for q, k in enumerate(sub):
                    t = toks[k]
                    if t.kind != "id" or not (t.text[0].islower() or t.text[0] == "_") or t.text in ("_", "mut"):
                        continue
                    if t.text == "ref":
                        drop.append(k); continue
                    nxt = toks[sub[q + 1]].text if q + 1 < len(sub) else ""
                    prv = toks[sub[q - 1]].text if q > 0 else ""
                    if nxt in ("(", "{", "!") or prv == ":":
                        continue
                    if prv == "ref":
                        continue
                    binds.append(t.text)
                # block start: first `{` at depth 0 after `=`
                k = si[b] + 1
                d = 0
                while True:
                    t = toks[k]
                    if t.kind == "p" and t.text in "([":
                        d += 1
                    elif t.kind == "p" and t.text in ")]":
                        d -= 1
                    elif t.kind == "p" and t.text == "{" and d == 0:
                        break
                    k += 1
                hit = (drop, k, binds)
                break
        if not hit:
            break
        drop, blk, binds = hit
        lets = "".join(" let %s = *%s;" % (b_, b_) for b_ in binds)
        new = []
        for i, t in enumerate(toks):
            if i in drop:
                continue
            new.append(t)
            if i == blk:
                new += lex(lets)
        toks = relex(text(new))
        n += 1
    _count(counts, "R15", n)
    return toks


def rw_map_ctor_ok(toks, counts):
    """R11c: `X.map(Path::Ctor).ok()` -> `match X { Ok(v__) => Some(Path::Ctor(v__)), Err(_) => None }`
    (X: the maximal postfix chain to the left; Result::map + Result::ok by their std definitions)."""
    n = 0
    while True:
        si = sig_idx(toks)
        hit = None
        for a in range(len(si) - 8):
            i = si[a]
            if toks[i].text == "." and toks[si[a + 1]].text == "map" and toks[si[a + 2]].text == "(":
                mo = si[a + 2]
                mc = match_close(toks, mo)
                inner = [t for t in toks[mo + 1:mc] if is_sig(t)]
                if not inner or not inner[-1].text[:1].isupper() or any(t.kind not in ("id", "p") for t in inner):
                    continue
                b = next_sig(toks, mc + 1)
                c = next_sig(toks, b + 1)
                if toks[b].text != "." or toks[c].text != "ok":
                    continue
                o = next_sig(toks, c + 1)
                if toks[o].text != "(":
                    continue
                oc = match_close(toks, o)
                r = prev_sig(toks, i - 1)
                start = None
                while r >= 0:
                    t = toks[r]
                    if t.kind == "p" and t.text in ")]":
                        d = 0
                        k = r
                        while True:
                            if toks[k].kind == "p" and toks[k].text in ")]":
                                d += 1
                            elif toks[k].kind == "p" and toks[k].text in "([":
                                d -= 1
                                if d == 0:
                                    break
                            k -= 1
                        start = k
                        r = prev_sig(toks, k - 1)
                        continue
                    if t.kind == "id" or (t.kind == "p" and t.text in ":.") or t.kind == "num":
                        if t.kind == "id" and t.text in ("return", "match", "if", "in", "let", "else"):
                            break
                        start = r
                        r = prev_sig(toks, r - 1)
                        continue
                    break
                if start is None:
                    continue
                hit = (start, i, inner, oc)
                break
        if not hit:
            break
        start, r_end, inner, oc = hit
        X = toks[start:r_end]
        new = lex("match ") + X + lex(" { Ok(v__) => Some(") + inner + lex("(v__)), Err(_) => None }")
        toks = relex(text(toks[:start] + new + toks[oc + 1:]))
        n += 1
    _count(counts, "R11", n)
    return toks


def rw_str_index(toks, counts, var, f_range="str_range", f_from="str_from"):
    """R6b: range indexing of the &str (or byte slice) variable VAR
            &VAR[a..b] -> str_range(VAR, a, b)     &VAR[..b] -> str_range(VAR, 0, b)     &VAR[a..] -> str_from(VAR, a)
    The index expressions are kept verbatim."""
    n = 0
    while True:
        si = sig_idx(toks)
        hit = None
        for a in range(len(si) - 3):
            if toks[si[a]].text == "&" and toks[si[a + 1]].text == var and toks[si[a + 2]].text == "[":
                o = si[a + 2]
                c = match_close(toks, o)
                # top-level `..`
                d = 0
                k = None
                for i in range(o + 1, c):
                    t = toks[i]
                    if t.kind == "p":
                        if t.text in OPEN:
                            d += 1
                        elif t.text in ")]}":
                            d -= 1
                    if d == 0 and text(toks[i:i + 1]) == "..":
                        k = (i, i + 1); break
                    if d == 0 and t.text == "." and i + 1 < c and toks[i + 1].text == "." and (i + 2 >= c or toks[i + 2].text != "."):
                        k = (i, i + 2); break
                if k is None:
                    continue
                lo = text(toks[o + 1:k[0]]).strip()
                hi = text(toks[k[1]:c]).strip()
                if hi.startswith("="):
                    raise LostAnchor("inclusive range index on %s" % var)
                if hi:
                    new = "%s(%s, %s, %s)" % (f_range, var, lo or "0", hi)
                else:
                    new = "%s(%s, %s)" % (f_from, var, lo or "0")
                hit = (si[a], c + 1, new)
                break
        if not hit:
            break
        s, e, new = hit
        toks = toks[:s] + relex(new) + toks[e:]
        n += 1
    if n == 0:
        raise LostAnchor("no range indexing of `%s` found" % var)
    _count(counts, "R6", n)
    return toks


CHAR_CLASS_DEF = "($c: expr, [$head:expr]) => ($c == $head); ($c: expr, [$head:expr $(, $cs:expr)+]) => ($c == $head || char_class!($c, [$($cs),*]));"


def rw_expand_char_class(toks, counts, macro_file, ctx=None):
    """R5b: `char_class!(c, [a, b, ...])` -> `(c == a || c == b || ...)`. The two-arm recursive
    macro_rules! char_class of the real source is compared (token for token) with the definition
    this expansion implements; any difference is a lost anchor."""
    from rustlex import find_macro
    src = ctx["macro_src"](macro_file)
    m = find_macro(src, "char_class")
    if m is None:
        raise LostAnchor("macro_rules! char_class not found")
    have = " ".join(t.text for t in src[m.body_open + 1:m.body_close] if is_sig(t))
    want = " ".join(t.text for t in lex(CHAR_CLASS_DEF) if is_sig(t))
    if have != want:
        raise LostAnchor("macro_rules! char_class changed: %s" % have[:120])
    out = []
    i = 0
    n = 0
    while i < len(toks):
        t = toks[i]
        if t.kind == "id" and t.text == "char_class":
            j = next_sig(toks, i + 1)
            if j < len(toks) and toks[j].text == "!":
                k = next_sig(toks, j + 1)
                e = match_close(toks, k)
                inner = toks[k + 1:e]
                # split at the first top-level comma
                d = 0
                cut = None
                for x, tk in enumerate(inner):
                    if tk.kind == "p":
                        if tk.text in OPEN:
                            d += 1
                        elif tk.text in ")]}":
                            d -= 1
                        elif tk.text == "," and d == 0:
                            cut = x; break
                if cut is None:
                    raise LostAnchor("char_class!: no class list")
                subj = text(inner[:cut]).strip()
                lst = [x for x in inner[cut + 1:] if is_sig(x)]
                if not lst or lst[0].text != "[" or lst[-1].text != "]":
                    raise LostAnchor("char_class!: class list is not a bracketed list")
                members = [x.text for x in lst[1:-1] if x.text != ","]
                if not members:
                    raise LostAnchor("char_class!: empty class")
                new = "(" + " || ".join("%s == %s" % (subj, mem) for mem in members) + ")"
                out += relex(new)
                i = e + 1
                n += 1
                continue
        out.append(t); i += 1
    if n == 0:
        raise LostAnchor("no char_class! invocation found")
    _count(counts, "R5", n)
    return out
rw_expand_char_class.needs_ctx = True


def rw_name_for_iter(toks, counts, name="it"):
    """R1b: `for PAT in EXPR {` -> `for PAT in NAME: EXPR {` (Verus' syntax for naming the ghost iterator
    that loop invariants refer to). Nothing executable changes."""
    n = 0
    out = []
    i = 0
    while i < len(toks):
        t = toks[i]
        out.append(t)
        if t.kind == "id" and t.text == "for":
            # find the `in` of this loop header at depth 0
            d = 0
            k = i + 1
            while k < len(toks):
                tk = toks[k]
                if tk.kind == "p":
                    if tk.text in OPEN:
                        d += 1
                    elif tk.text in ")]}":
                        d -= 1
                if d == 0 and tk.kind == "id" and tk.text == "in":
                    break
                if d == 0 and tk.kind == "p" and tk.text == "{":
                    k = None; break
                k += 1
            if k is not None and k < len(toks):
                out += toks[i + 1:k + 1] + relex(" %s:" % name)
                i = k + 1
                n += 1
                continue
        i += 1
    if n == 0:
        raise LostAnchor("no for loop found")
    _count(counts, "R1", n)
    return out


def rw_atom_pattern_guard(toks, counts, shim="atom_of"):
    """R5c: a match arm whose pattern is a tuple starting with `atom!("..")`
            (atom!("X"), REST) [if COND] => ...
    becomes (n_, REST) if n_ == atom_of("X") [&& (COND)] => ...   (a macro cannot stay in pattern position
    once atom! is a function; the arm order and bodies are untouched)."""
    n = 0
    while True:
        si = sig_idx(toks)
        hit = None
        for a in range(len(si) - 6):
            if toks[si[a]].text == "(" and toks[si[a + 1]].text == "atom" and toks[si[a + 2]].text == "!" and toks[si[a + 3]].text == "(":
                po = si[a]
                pc = match_close(toks, po)
                ao = si[a + 3]
                ac = match_close(toks, ao)
                nxt = next_sig(toks, ac + 1)
                if toks[nxt].text != ",":
                    continue
                after = next_sig(toks, pc + 1)
                # arm position: followed by `=>` or `if ... =>`
                if toks[after].text == "if":
                    # find `=>` at depth 0
                    d = 0
                    k = after + 1
                    while k < len(toks):
                        tk = toks[k]
                        if tk.kind == "p":
                            if tk.text in OPEN:
                                d += 1
                            elif tk.text in ")]}":
                                d -= 1
                        if d == 0 and tk.text == "=" and toks[k + 1].text == ">":
                            break
                        k += 1
                    cond = text(toks[after + 1:k]).strip()
                    lit = text(toks[ao + 1:ac]).strip()
                    rest = text(toks[nxt + 1:pc]).strip()
                    new = "(n_, %s) if n_ == %s(%s) && (%s) " % (rest, shim, lit, cond)
                    hit = (po, k, new)
                elif toks[after].text == "=" and toks[after + 1].text == ">":
                    lit = text(toks[ao + 1:ac]).strip()
                    rest = text(toks[nxt + 1:pc]).strip()
                    new = "(n_, %s) if n_ == %s(%s) " % (rest, shim, lit)
                    hit = (po, after, new)
                else:
                    continue
                break
        if not hit:
            break
        s, e, new = hit
        toks = toks[:s] + relex(new) + toks[e:]
        n += 1
    # (no such arm: nothing to do)
    _count(counts, "R5", n)
    return toks


# ---------------------------------------------------------------- match-arm rewrites
def _match_bodies(toks):
    """(open, close) token indices of the braces of every `match EXPR { ... }` body"""
    out = []
    for i, t in enumerate(toks):
        if t.kind == "id" and t.text == "match":
            d = 0
            k = i + 1
            while k < len(toks):
                tk = toks[k]
                if tk.kind == "p":
                    if tk.text in "([":
                        d += 1
                    elif tk.text in ")]":
                        d -= 1
                    elif tk.text == "{" and d == 0:
                        break
                k += 1
            if k < len(toks):
                out.append((k, match_close(toks, k)))
    return out


def _arms(toks, bo, bc):
    """arms of the match body toks[bo..bc]: dicts with token index ranges pat=(a,b) guard=(a,b)|None body=(a,b) end (exclusive, incl. comma)"""
    arms = []
    i = next_sig(toks, bo + 1)
    while i < bc:
        a = i
        d = 0
        g = None
        k = i
        while k < bc:
            tk = toks[k]
            if tk.kind == "p":
                if tk.text in OPEN:
                    d += 1
                elif tk.text in ")]}":
                    d -= 1
                elif d == 0 and tk.text == "=" and toks[k + 1].text == ">":
                    break
            if d == 0 and tk.kind == "id" and tk.text == "if" and g is None:
                g = k
            k += 1
        if k >= bc:
            break
        pat = (a, g if g is not None else k)
        guard = (g + 1, k) if g is not None else None
        b = next_sig(toks, k + 2)
        if toks[b].text == "{":
            e = match_close(toks, b) + 1
            body = (b, e)
            n = next_sig(toks, e)
            if n < bc and toks[n].text == ",":
                e = n + 1
        else:
            d = 0
            e = b
            while e < bc:
                tk = toks[e]
                if tk.kind == "p":
                    if tk.text in OPEN:
                        d += 1
                    elif tk.text in ")]}":
                        d -= 1
                    elif tk.text == "," and d == 0:
                        break
                e += 1
            body = (b, e)
            if e < bc and toks[e].text == ",":
                e += 1
        arms.append({"pat": pat, "guard": guard, "body": body, "start": a, "end": e})
        i = next_sig(toks, e)
    return arms


def _alts(toks, a, b):
    """top-level `|` alternatives of the pattern toks[a:b] as text"""
    parts = []
    d = 0
    cur = a
    for k in range(a, b):
        tk = toks[k]
        if tk.kind == "p":
            if tk.text in OPEN:
                d += 1
            elif tk.text in ")]}":
                d -= 1
            elif tk.text == "|" and d == 0:
                parts.append(text(toks[cur:k]).strip()); cur = k + 1
    parts.append(text(toks[cur:b]).strip())
    return parts


def rw_split_or_guard(toks, counts):
    """R17: `P1 | P2 if G => B`  ->  `P1 if G => B, P2 if G => B` (an arm with both an or-pattern and a guard;
    the alternatives bind nothing, so B is duplicated verbatim and the order of tests is unchanged)."""
    n = 0
    while True:
        hit = None
        for bo, bc in _match_bodies(toks):
            for arm in _arms(toks, bo, bc):
                if arm["guard"] is None:
                    continue
                alts = _alts(toks, *arm["pat"])
                if len(alts) < 2:
                    continue
                g = text(toks[arm["guard"][0]:arm["guard"][1]]).strip()
                b = text(toks[arm["body"][0]:arm["body"][1]]).strip()
                if not b.startswith("{"):
                    b = "{ " + b + " }"
                new = "\n".join("%s if %s => %s" % (p, g, b) for p in alts) + "\n"
                hit = (arm["start"], arm["end"], new)
                break
            if hit:
                break
        if not hit:
            break
        s, e, new = hit
        toks = toks[:s] + relex(new) + toks[e:]
        n += 1
    # (nothing to split is not an error: the construct this rule removes is simply absent)
    _count(counts, "R17", n)
    return toks


def rw_merge_guarded_twin(toks, counts):
    """R17b: two consecutive arms with the same pattern, the first guarded, the second not
            P if G => B1, P => B2     ->     P => { if G { B1 } else { B2 } }
    (needed where P binds by mutable reference: Verus rejects a guard on such an arm). The guard is still
    evaluated first and exactly one of B1, B2 runs."""
    n = 0
    while True:
        hit = None
        for bo, bc in _match_bodies(toks):
            arms = _arms(toks, bo, bc)
            for x in range(len(arms) - 1):
                a1, a2 = arms[x], arms[x + 1]
                if a1["guard"] is None or a2["guard"] is not None:
                    continue
                p1 = " ".join(t.text for t in toks[a1["pat"][0]:a1["pat"][1]] if is_sig(t))
                p2 = " ".join(t.text for t in toks[a2["pat"][0]:a2["pat"][1]] if is_sig(t))
                if p1 != p2:
                    continue
                g = text(toks[a1["guard"][0]:a1["guard"][1]]).strip()
                b1 = text(toks[a1["body"][0]:a1["body"][1]]).strip()
                b2 = text(toks[a2["body"][0]:a2["body"][1]]).strip()
                if not b1.startswith("{"):
                    b1 = "{ " + b1 + " }"
                if not b2.startswith("{"):
                    b2 = "{ " + b2 + " }"
                new = "%s => { if %s %s else %s }\n" % (text(toks[a1["pat"][0]:a1["pat"][1]]).strip(), g, b1, b2)
                hit = (a1["start"], a2["end"], new)
                break
            if hit:
                break
        if not hit:
            break
        s, e, new = hit
        toks = toks[:s] + relex(new) + toks[e:]
        n += 1
    # (nothing to merge is not an error)
    _count(counts, "R17", n)
    return toks


READ_HEAP_CELL_HASHES = {"read_heap_cell": "8d2b2343821397f8", "read_heap_cell_pat": "d00c20e7c9da8482",
                         "read_heap_cell_pat_expander": "2e5a41d68b2e4b15", "read_heap_cell_pat_body": "5aaa2a986334496e"}


def rw_expand_read_heap_cell(toks, counts, macro_file, ctx=None):
    """R5d: expansion of `read_heap_cell!(CELL, (TAGS[, BIND]) [if G] => { B } ... )` as the four macro_rules
    of src/macros.rs define it (their token text is hashed and compared on every run):

        { let cell_id_N = CELL;
          match cell_id_N.get_tag() { TAGS [if G] => { let BIND = <payload of cell_id_N for the first tag>; B } ... } }

    payload: Atom -> cell_as_atom_cell!(c).get_name_and_arity(); Cons -> cell_as_untyped_arena_ptr!(c);
    F64Offset -> cell_as_f64_offset!(c); CodeIndexOffset -> cell_as_code_index_offset!(c);
    Fixnum/CutPoint -> Fixnum::from_bytes(c.into_bytes()); every other tag -> c.get_value() as usize."""
    import hashlib
    from rustlex import find_macro
    src = ctx["macro_src"](macro_file)
    for name, want in READ_HEAP_CELL_HASHES.items():
        m = find_macro(src, name)
        if m is None:
            raise LostAnchor("macro_rules! %s not found" % name)
        t = " ".join(x.text for x in src[m.body_open:m.body_close + 1] if is_sig(x))
        if hashlib.sha256(t.encode()).hexdigest()[:16] != want:
            raise LostAnchor("macro_rules! %s changed (expansion rule R5d no longer matches it)" % name)
    n = 0
    while True:
        si = sig_idx(toks)
        hit = None
        for a in range(len(si) - 2):
            if toks[si[a]].kind == "id" and toks[si[a]].text == "read_heap_cell" and toks[si[a + 1]].text == "!":
                o = si[a + 2]
                c = match_close(toks, o)
                hit = (si[a], o, c)
                break
        if not hit:
            break
        start, o, c = hit
        n += 1
        # first argument: up to the first top-level comma
        d = 0
        k = o + 1
        while k < c:
            tk = toks[k]
            if tk.kind == "p":
                if tk.text in OPEN:
                    d += 1
                elif tk.text in ")]}":
                    d -= 1
                elif tk.text == "," and d == 0:
                    break
            k += 1
        cell_expr = text(toks[o + 1:k]).strip()
        var = "cell_id_%d" % n
        arms_out = []
        i = next_sig(toks, k + 1)
        while i < c:
            # pattern
            if toks[i].text == "_":
                pat_tags, bind = None, None
                j = next_sig(toks, i + 1)
            elif toks[i].text == "(":
                pc = match_close(toks, i)
                inner = toks[i + 1:pc]
                # split tags / binding at top-level comma
                d = 0
                cut = None
                for x, tk in enumerate(inner):
                    if tk.kind == "p":
                        if tk.text in OPEN:
                            d += 1
                        elif tk.text in ")]}":
                            d -= 1
                        elif tk.text == "," and d == 0:
                            cut = x; break
                pat_tags = text(inner[:cut] if cut is not None else inner).strip()
                bind = text(inner[cut + 1:]).strip() if cut is not None else None
                j = next_sig(toks, pc + 1)
            else:
                raise LostAnchor("read_heap_cell!: unexpected arm start `%s`" % toks[i].text)
            guard = None
            if toks[j].text == "if":
                g0 = j + 1
                d = 0
                while not (d == 0 and toks[j].text == "=" and toks[j + 1].text == ">"):
                    tk = toks[j]
                    if tk.kind == "p":
                        if tk.text in OPEN:
                            d += 1
                        elif tk.text in ")]}":
                            d -= 1
                    j += 1
                guard = text(toks[g0:j]).strip()
            if not (toks[j].text == "=" and toks[j + 1].text == ">"):
                raise LostAnchor("read_heap_cell!: `=>` expected")
            b = next_sig(toks, j + 2)
            if toks[b].text != "{":
                raise LostAnchor("read_heap_cell!: arm body must be a block")
            be = match_close(toks, b)
            body = text(toks[b + 1:be])
            if pat_tags is None:
                arms_out.append("_ %s=> {%s}" % (("if %s " % guard) if guard else "", body))
            else:
                first = re.sub(r"\s+", "", pat_tags).split("|")[0].split("::")[-1]
                if bind is None:
                    let = ""
                elif first == "Atom":
                    let = "let %s = cell_as_atom_cell!(%s).get_name_and_arity();" % (bind, var)
                elif first == "Cons":
                    let = "let %s = cell_as_untyped_arena_ptr!(%s);" % (bind, var)
                elif first == "F64Offset":
                    let = "let %s = cell_as_f64_offset!(%s);" % (bind, var)
                elif first == "CodeIndexOffset":
                    let = "let %s = cell_as_code_index_offset!(%s);" % (bind, var)
                elif first in ("Fixnum", "CutPoint"):
                    let = "let %s = Fixnum::from_bytes(%s.into_bytes());" % (bind, var)
                else:
                    let = "let %s = %s.get_value() as usize;" % (bind, var)
                arms_out.append("%s %s=> { %s %s}" % (pat_tags, ("if %s " % guard) if guard else "", let, body))
            i = next_sig(toks, be + 1)
            if i < c and toks[i].text == ",":
                i = next_sig(toks, i + 1)
        new = "{ let %s = %s;\n match %s.get_tag() {\n%s\n} }" % (var, cell_expr, var, "\n".join(arms_out))
        toks = toks[:start] + relex(new) + toks[c + 1:]
    if n == 0:
        raise LostAnchor("no read_heap_cell! invocation found")
    _count(counts, "R5", n)
    return toks
rw_expand_read_heap_cell.needs_ctx = True


def rw_index_to_method(toks, counts, receiver, method="at"):
    """R6c: `RECEIVER[E]` (Index::index on a shimmed container) -> `RECEIVER.METHOD(E)`; RECEIVER is a dotted
    path such as `self.heap`."""
    want = [t.text for t in lex(receiver) if is_sig(t)]
    n = 0
    while True:
        si = sig_idx(toks)
        hit = None
        for a in range(len(si) - len(want)):
            if [toks[si[a + k]].text for k in range(len(want))] == want and toks[si[a + len(want)]].text == "[":
                if a > 0 and toks[si[a - 1]].text == ".":
                    continue
                o = si[a + len(want)]
                hit = (o, match_close(toks, o)); break
        if not hit:
            break
        o, c = hit
        toks = toks[:o] + relex(".%s(" % method) + toks[o + 1:c] + relex(")") + toks[c + 1:]
        n += 1
    _count(counts, "R6", n)
    return toks


def rw_guard_into_wild(toks, counts):
    """R17c: in a match whose LAST two arms are `P if G => B1` and `_ => B2`, the guard moves into the body:
            P => { if G { B1 } else { B2 } }   _ => B2
    (when G is false the only arm left to try is the wildcard, so B2 runs in both forms). Works around a
    Verus limitation: with a guard on an arm that binds by shared reference the final value of a `&mut`
    parameter is not resolved (minimal repro in DESIGN.md)."""
    n = 0
    done = set()
    while True:
        hit = None
        for bo, bc in _match_bodies(toks):
            arms = _arms(toks, bo, bc)
            if len(arms) < 2:
                continue
            a1, a2 = arms[-2], arms[-1]
            if a1["guard"] is None or a2["guard"] is not None:
                continue
            p2 = "".join(t.text for t in toks[a2["pat"][0]:a2["pat"][1]] if is_sig(t))
            if p2 != "_":
                continue
            g = text(toks[a1["guard"][0]:a1["guard"][1]]).strip()
            b1 = text(toks[a1["body"][0]:a1["body"][1]]).strip()
            b2 = text(toks[a2["body"][0]:a2["body"][1]]).strip()
            if not b1.startswith("{"):
                b1 = "{ " + b1 + " }"
            if not b2.startswith("{"):
                b2 = "{ " + b2 + " }"
            new = "%s => { if %s %s else %s }\n" % (text(toks[a1["pat"][0]:a1["pat"][1]]).strip(), g, b1, b2)
            hit = (a1["start"], a1["end"], new)
            break
        if not hit:
            break
        s, e, new = hit
        toks = toks[:s] + relex(new) + toks[e:]
        n += 1
    _count(counts, "R17", n)
    return toks


def rw_assert_after_push_pairs(toks, counts, receiver, assertion, skip=()):
    """Spec-side insertion (no executable change): after every two CONSECUTIVE statements `RECEIVER.push(..);`
    a proof block with ASSERTION is inserted. `skip` lists 1-based pair numbers (in source order) to leave out."""
    want = [t.text for t in lex(receiver + ".push") if is_sig(t)]
    si = sig_idx(toks)
    # statements starting with RECEIVER.push( ... );
    stmts = []
    for a in range(len(si) - len(want)):
        if [toks[si[a + k]].text for k in range(len(want))] == want and toks[si[a + len(want)]].text == "(":
            if a > 0 and toks[si[a - 1]].text not in (";", "{", "}"):
                continue
            o = si[a + len(want)]
            c = match_close(toks, o)
            e = next_sig(toks, c + 1)
            if toks[e].text == ";":
                stmts.append((si[a], e))
    pairs = []
    k = 0
    while k + 1 < len(stmts):
        s1, e1 = stmts[k]
        s2, e2 = stmts[k + 1]
        if next_sig(toks, e1 + 1) == s2:
            pairs.append(e2); k += 2
        else:
            k += 1
    if not pairs:
        raise LostAnchor("no pair of consecutive %s.push statements found" % receiver)
    out = toks
    n = 0
    for num, e2 in reversed(list(enumerate(pairs, 1))):
        if num in skip:
            continue
        out = out[:e2 + 1] + [Tok("ws", "\n", 0), Tok("raw", "proof { %s } /* push pair #%d */" % (assertion, num), 0), Tok("ws", "\n", 0)] + out[e2 + 1:]
        n += 1
    counts["push_pairs"] = len(pairs)
    return out


def rw_for_to_while_let(toks, counts, iter_name="iter_"):
    """R1c: desugaring of `for PAT in EXPR BLOCK` over a value that is itself an Iterator:
            { let mut ITER = EXPR; while let Some(PAT) = ITER.next() BLOCK }
    (IntoIterator::into_iter is the identity on iterators; Verus has no for-loop support for user iterators)."""
    n = 0
    while True:
        si = sig_idx(toks)
        hit = None
        for a in range(len(si)):
            if toks[si[a]].kind == "id" and toks[si[a]].text == "for":
                # `for<'a>` in types is followed by `<`
                if toks[si[a + 1]].text == "<":
                    continue
                d = 0
                k = si[a] + 1
                in_i = None
                while k < len(toks):
                    tk = toks[k]
                    if tk.kind == "p":
                        if tk.text in OPEN:
                            if tk.text == "{" and d == 0 and in_i is not None:
                                break
                            d += 1
                        elif tk.text in ")]}":
                            d -= 1
                    if d == 0 and tk.kind == "id" and tk.text == "in" and in_i is None:
                        in_i = k
                    k += 1
                if in_i is None or k >= len(toks):
                    continue
                bo = k
                bc = match_close(toks, bo)
                pat = text(toks[si[a] + 1:in_i]).strip()
                expr = text(toks[in_i + 1:bo]).strip()
                body = text(toks[bo:bc + 1])
                new = "{ let mut %s = %s; while let Some(%s) = %s.next() %s }" % (iter_name, expr, pat, iter_name, body)
                hit = (si[a], bc + 1, new)
                break
        if not hit:
            break
        s, e, new = hit
        toks = toks[:s] + relex(new) + toks[e:]
        n += 1
    if n == 0:
        raise LostAnchor("no for loop found")
    _count(counts, "R1", n)
    return toks
