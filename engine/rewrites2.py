"""Further documented rewrite rules (loaded by extract.apply_rewrites by name)."""
import re
from rustlex import lex, text, is_sig, next_sig, prev_sig, match_close, Tok, OPEN
from extract import LostAnchor, _count, sig_idx, relex


def rw_boxed_error(toks, counts):
    """R4b: a boxed error-building closure

            Box::new(move |machine_st[: T]| { let X = machine_st.KIND(ARGS); let stub = S; machine_st.error_form(X, stub) }) [as Box<dyn ..>]

    keeps only its formal error term:  formal_gen(Formal::Eval(ARGS) | Formal::Type(ARGS) | Formal::Instantiation).
    Dropped: the error context `stub` (which functor the error is attributed to). A closure of any
    other shape is a lost anchor."""
    n = 0
    while True:
        si = sig_idx(toks)
        hit = None
        for a in range(len(si) - 6):
            if [toks[si[a + k]].text for k in range(5)] == ["Box", ":", ":", "new", "("]:
                o = si[a + 4]
                c = match_close(toks, o)
                inner = [i for i in range(o + 1, c) if is_sig(toks[i])]
                j = 0
                if toks[inner[j]].text == "move":
                    j += 1
                if toks[inner[j]].text != "|":
                    continue
                j += 1
                pname = toks[inner[j]].text
                while toks[inner[j]].text != "|":
                    j += 1
                j += 1
                if toks[inner[j]].text != "{":
                    raise LostAnchor("boxed closure without block body")
                bo = inner[j]
                bc = match_close(toks, bo)
                body = text(toks[bo + 1:bc])
                m = re.search(r"\b%s\s*\.\s*(evaluation_error|type_error|instantiation_error)\s*\(" % re.escape(pname), body)
                if not m or not re.search(r"\b%s\s*\.\s*error_form\s*\(" % re.escape(pname), body):
                    raise LostAnchor("boxed closure is not an error builder: %s" % body.strip()[:80])
                # argument list of the error constructor
                btoks = lex(body)
                k = None
                for x, t in enumerate(btoks):
                    if t.kind == "id" and t.text == m.group(1) and btoks[prev_sig(btoks, x - 1)].text == "." \
                            and btoks[next_sig(btoks, x + 1)].text == "(":
                        k = next_sig(btoks, x + 1); break
                args = text(btoks[k + 1:match_close(btoks, k)]).strip()
                # every statement must be a let or the final error_form call
                stmts = [s.strip() for s in body.split(";") if s.strip()]
                for s_ in stmts:
                    if not (s_.startswith("let ") or re.match(r"%s\s*\.\s*error_form\s*\(" % re.escape(pname), s_)):
                        raise LostAnchor("unexpected statement in error closure: %s" % s_[:60])
                kind = m.group(1)
                formal = {"evaluation_error": "Formal::Eval(%s)" % args, "type_error": "Formal::Type(%s)" % args,
                          "instantiation_error": "Formal::Instantiation"}[kind]
                end = c
                # optional `as Box<dyn ...>` cast
                nx = next_sig(toks, c + 1)
                if nx < len(toks) and toks[nx].text == "as":
                    k2 = next_sig(toks, nx + 1)
                    if toks[k2].text == "Box":
                        lt = next_sig(toks, k2 + 1)
                        d = 0
                        q = lt
                        while True:
                            if toks[q].text == "<":
                                d += 1
                            elif toks[q].text == ">" and toks[q - 1].text != "-":
                                d -= 1
                                if d == 0:
                                    break
                            q += 1
                        end = q
                hit = (si[a], end, formal)
                break
        if not hit:
            break
        s, e, formal = hit
        toks = relex(text(toks[:s] + lex("formal_gen(%s)" % formal) + toks[e + 1:]))
        n += 1
    _count(counts, "R4", n)
    return toks


def rw_iflet_ref_patterns(toks, counts):
    """R15b: `if let PAT = E {` where PAT contains a reference pattern `&(..)`/`&Path(..)`: the `&` is
    dropped (default binding mode), identifiers bound by value inside it are re-bound with
    `let x = *x;` at the head of the block, and identifiers bound with `ref x` simply lose the
    (now implicit) `ref`. Types and values of all bindings are unchanged."""
    n = 0
    while True:
        si = sig_idx(toks)
        hit = None
        for a in range(len(si) - 3):
            if toks[si[a]].text == "if" and toks[si[a + 1]].text == "let":
                # pattern: up to the `=` at depth 0
                b = a + 2
                d = 0
                while True:
                    t = toks[si[b]]
                    if t.kind == "p" and t.text in "([":
                        d += 1
                    elif t.kind == "p" and t.text in ")]":
                        d -= 1
                    elif t.kind == "p" and t.text == "=" and d == 0:
                        break
                    b += 1
                pat = si[a + 2:b]
                amp = None
                for x in range(len(pat) - 1):
                    if toks[pat[x]].text == "&" and toks[pat[x + 1]].text != "mut":
                        amp = x; break
                if amp is None:
                    continue
                # sub-pattern extent
                y = amp + 1
                if toks[pat[y]].text == "(":
                    end = match_close(toks, pat[y])
                else:
                    while y + 2 < len(pat) and toks[pat[y + 1]].text == ":" and toks[pat[y + 2]].text == ":":
                        y += 3
                    end = pat[y]
                    if y + 1 < len(pat) and toks[pat[y + 1]].text in "({":
                        end = match_close(toks, pat[y + 1])
                sub = [k for k in range(pat[amp] + 1, end + 1) if is_sig(toks[k])]
                binds, drop = [], [pat[amp]]
                for q, k in enumerate(sub):
                    t = toks[k]
                    if t.kind != "id" or not (t.text[0].islower() or t.text[0] == "_") or t.text in ("_", "mut"):
                        continue
                    if t.text == "ref":
                        drop.append(k); continue
                    nxt = toks[sub[q + 1]].text if q + 1 < len(sub) else ""
                    prv = toks[sub[q - 1]].text if q > 0 else ""
                    if nxt in ("(", "{", "!") or prv == ":":
                        continue
                    if prv == "ref":
                        continue
                    binds.append(t.text)
                # block start: first `{` at depth 0 after `=`
                k = si[b] + 1
                d = 0
                while True:
                    t = toks[k]
                    if t.kind == "p" and t.text in "([":
                        d += 1
                    elif t.kind == "p" and t.text in ")]":
                        d -= 1
                    elif t.kind == "p" and t.text == "{" and d == 0:
                        break
                    k += 1
                hit = (drop, k, binds)
                break
        if not hit:
            break
        drop, blk, binds = hit
        lets = "".join(" let %s = *%s;" % (b_, b_) for b_ in binds)
        new = []
        for i, t in enumerate(toks):
            if i in drop:
                continue
            new.append(t)
            if i == blk:
                new += lex(lets)
        toks = relex(text(new))
        n += 1
    _count(counts, "R15", n)
    return toks


def rw_map_ctor_ok(toks, counts):
    """R11c: `X.map(Path::Ctor).ok()` -> `match X { Ok(v__) => Some(Path::Ctor(v__)), Err(_) => None }`
    (X: the maximal postfix chain to the left; Result::map + Result::ok by their std definitions)."""
    n = 0
    while True:
        si = sig_idx(toks)
        hit = None
        for a in range(len(si) - 8):
            i = si[a]
            if toks[i].text == "." and toks[si[a + 1]].text == "map" and toks[si[a + 2]].text == "(":
                mo = si[a + 2]
                mc = match_close(toks, mo)
                inner = [t for t in toks[mo + 1:mc] if is_sig(t)]
                if not inner or not inner[-1].text[:1].isupper() or any(t.kind not in ("id", "p") for t in inner):
                    continue
                b = next_sig(toks, mc + 1)
                c = next_sig(toks, b + 1)
                if toks[b].text != "." or toks[c].text != "ok":
                    continue
                o = next_sig(toks, c + 1)
                if toks[o].text != "(":
                    continue
                oc = match_close(toks, o)
                r = prev_sig(toks, i - 1)
                start = None
                while r >= 0:
                    t = toks[r]
                    if t.kind == "p" and t.text in ")]":
                        d = 0
                        k = r
                        while True:
                            if toks[k].kind == "p" and toks[k].text in ")]":
                                d += 1
                            elif toks[k].kind == "p" and toks[k].text in "([":
                                d -= 1
                                if d == 0:
                                    break
                            k -= 1
                        start = k
                        r = prev_sig(toks, k - 1)
                        continue
                    if t.kind == "id" or (t.kind == "p" and t.text in ":.") or t.kind == "num":
                        if t.kind == "id" and t.text in ("return", "match", "if", "in", "let", "else"):
                            break
                        start = r
                        r = prev_sig(toks, r - 1)
                        continue
                    break
                if start is None:
                    continue
                hit = (start, i, inner, oc)
                break
        if not hit:
            break
        start, r_end, inner, oc = hit
        X = toks[start:r_end]
        new = lex("match ") + X + lex(" { Ok(v__) => Some(") + inner + lex("(v__)), Err(_) => None }")
        toks = relex(text(toks[:start] + new + toks[oc + 1:]))
        n += 1
    _count(counts, "R11", n)
    return toks


def rw_str_index(toks, counts, var, f_range="str_range", f_from="str_from"):
    """R6b: range indexing of the &str (or byte slice) variable VAR
            &VAR[a..b] -> str_range(VAR, a, b)     &VAR[..b] -> str_range(VAR, 0, b)     &VAR[a..] -> str_from(VAR, a)
    The index expressions are kept verbatim."""
    n = 0
    while True:
        si = sig_idx(toks)
        hit = None
        for a in range(len(si) - 3):
            if toks[si[a]].text == "&" and toks[si[a + 1]].text == var and toks[si[a + 2]].text == "[":
                o = si[a + 2]
                c = match_close(toks, o)
                # top-level `..`
                d = 0
                k = None
                for i in range(o + 1, c):
                    t = toks[i]
                    if t.kind == "p":
                        if t.text in OPEN:
                            d += 1
                        elif t.text in ")]}":
                            d -= 1
                    if d == 0 and text(toks[i:i + 1]) == "..":
                        k = (i, i + 1); break
                    if d == 0 and t.text == "." and i + 1 < c and toks[i + 1].text == "." and (i + 2 >= c or toks[i + 2].text != "."):
                        k = (i, i + 2); break
                if k is None:
                    continue
                lo = text(toks[o + 1:k[0]]).strip()
                hi = text(toks[k[1]:c]).strip()
                if hi.startswith("="):
                    raise LostAnchor("inclusive range index on %s" % var)
                if hi:
                    new = "%s(%s, %s, %s)" % (f_range, var, lo or "0", hi)
                else:
                    new = "%s(%s, %s)" % (f_from, var, lo or "0")
                hit = (si[a], c + 1, new)
                break
        if not hit:
            break
        s, e, new = hit
        toks = toks[:s] + relex(new) + toks[e:]
        n += 1
    if n == 0:
        raise LostAnchor("no range indexing of `%s` found" % var)
    _count(counts, "R6", n)
    return toks


CHAR_CLASS_DEF = "($c: expr, [$head:expr]) => ($c == $head); ($c: expr, [$head:expr $(, $cs:expr)+]) => ($c == $head || char_class!($c, [$($cs),*]));"


def rw_expand_char_class(toks, counts, macro_file, ctx=None):
    """R5b: `char_class!(c, [a, b, ...])` -> `(c == a || c == b || ...)`. The two-arm recursive
    macro_rules! char_class of the real source is compared (token for token) with the definition
    this expansion implements; any difference is a lost anchor."""
    from rustlex import find_macro
    src = ctx["macro_src"](macro_file)
    m = find_macro(src, "char_class")
    if m is None:
        raise LostAnchor("macro_rules! char_class not found")
    have = " ".join(t.text for t in src[m.body_open + 1:m.body_close] if is_sig(t))
    want = " ".join(t.text for t in lex(CHAR_CLASS_DEF) if is_sig(t))
    if have != want:
        raise LostAnchor("macro_rules! char_class changed: %s" % have[:120])
    out = []
    i = 0
    n = 0
    while i < len(toks):
        t = toks[i]
        if t.kind == "id" and t.text == "char_class":
            j = next_sig(toks, i + 1)
            if j < len(toks) and toks[j].text == "!":
                k = next_sig(toks, j + 1)
                e = match_close(toks, k)
                inner = toks[k + 1:e]
                # split at the first top-level comma
                d = 0
                cut = None
                for x, tk in enumerate(inner):
                    if tk.kind == "p":
                        if tk.text in OPEN:
                            d += 1
                        elif tk.text in ")]}":
                            d -= 1
                        elif tk.text == "," and d == 0:
                            cut = x; break
                if cut is None:
                    raise LostAnchor("char_class!: no class list")
                subj = text(inner[:cut]).strip()
                lst = [x for x in inner[cut + 1:] if is_sig(x)]
                if not lst or lst[0].text != "[" or lst[-1].text != "]":
                    raise LostAnchor("char_class!: class list is not a bracketed list")
                members = [x.text for x in lst[1:-1] if x.text != ","]
                if not members:
                    raise LostAnchor("char_class!: empty class")
                new = "(" + " || ".join("%s == %s" % (subj, mem) for mem in members) + ")"
                out += relex(new)
                i = e + 1
                n += 1
                continue
        out.append(t); i += 1
    if n == 0:
        raise LostAnchor("no char_class! invocation found")
    _count(counts, "R5", n)
    return out
rw_expand_char_class.needs_ctx = True


def rw_name_for_iter(toks, counts, name="it"):
    """R1b: `for PAT in EXPR {` -> `for PAT in NAME: EXPR {` (Verus' syntax for naming the ghost iterator
    that loop invariants refer to). Nothing executable changes."""
    n = 0
    out = []
    i = 0
    while i < len(toks):
        t = toks[i]
        out.append(t)
        if t.kind == "id" and t.text == "for":
            # find the `in` of this loop header at depth 0
            d = 0
            k = i + 1
            while k < len(toks):
                tk = toks[k]
                if tk.kind == "p":
                    if tk.text in OPEN:
                        d += 1
                    elif tk.text in ")]}":
                        d -= 1
                if d == 0 and tk.kind == "id" and tk.text == "in":
                    break
                if d == 0 and tk.kind == "p" and tk.text == "{":
                    k = None; break
                k += 1
            if k is not None and k < len(toks):
                out += toks[i + 1:k + 1] + relex(" %s:" % name)
                i = k + 1
                n += 1
                continue
        i += 1
    if n == 0:
        raise LostAnchor("no for loop found")
    _count(counts, "R1", n)
    return out
