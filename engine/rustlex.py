"""Minimal Rust lexer and item locator used by the extractor and the injector.

It is not a parser: it recognises comments, string/char literals, lifetimes,
identifiers, numbers and single-character punctuation, and matches brackets on
the resulting token stream. That is enough to cut `fn`, `impl`, `macro_rules!`
items out of a source file verbatim and to apply token-pattern rewrites that
never touch the inside of a string or a comment.
"""
import re
from collections import namedtuple

Tok = namedtuple("Tok", "kind text pos")
# kinds: ws lc bc str chr life id num p

_ID_START = re.compile(r"[A-Za-z_\u0080-\U0010ffff]")
_ID_CONT = re.compile(r"[A-Za-z0-9_\u0080-\U0010ffff]")


class LexError(Exception):
    pass


def lex(src):
    toks = []
    i, n = 0, len(src)
    while i < n:
        c = src[i]
        if c.isspace():
            j = i + 1
            while j < n and src[j].isspace():
                j += 1
            toks.append(Tok("ws", src[i:j], i)); i = j; continue
        if c == "/" and src.startswith("//", i):
            j = src.find("\n", i)
            if j < 0:
                j = n
            toks.append(Tok("lc", src[i:j], i)); i = j; continue
        if c == "/" and src.startswith("/*", i):
            depth, j = 1, i + 2
            while j < n and depth:
                if src.startswith("/*", j):
                    depth += 1; j += 2
                elif src.startswith("*/", j):
                    depth -= 1; j += 2
                else:
                    j += 1
            toks.append(Tok("bc", src[i:j], i)); i = j; continue
        # raw strings r"..." r#"..."# br#"..."#
        m = re.compile(r"b?r(#*)\"").match(src, i)
        if m:
            close = '"' + m.group(1)
            j = src.find(close, m.end())
            if j < 0:
                raise LexError("unterminated raw string at %d" % i)
            j += len(close)
            toks.append(Tok("str", src[i:j], i)); i = j; continue
        if c == '"' or (c == "b" and src.startswith('b"', i)) or (c == "c" and src.startswith('c"', i)):
            j = i + (1 if c == '"' else 2)
            while j < n and src[j] != '"':
                j += 2 if src[j] == "\\" else 1
            j += 1
            toks.append(Tok("str", src[i:j], i)); i = j; continue
        if c == "'" or (c == "b" and src.startswith("b'", i)):
            k = i + (1 if c == "'" else 2)
            if k < n and src[k] == "\\":
                j = k + 2
                while j < n and src[j] != "'":
                    j += 1
                j += 1
                toks.append(Tok("chr", src[i:j], i)); i = j; continue
            if k + 1 < n and src[k + 1] == "'":
                toks.append(Tok("chr", src[i:k + 2], i)); i = k + 2; continue
            # lifetime / label
            j = k
            while j < n and _ID_CONT.match(src[j]):
                j += 1
            toks.append(Tok("life", src[i:j], i)); i = j; continue
        if _ID_START.match(c):
            j = i + 1
            while j < n and _ID_CONT.match(src[j]):
                j += 1
            toks.append(Tok("id", src[i:j], i)); i = j; continue
        if c.isdigit():
            j = i + 1
            while j < n and (src[j].isalnum() or src[j] == "_" or
                             (src[j] == "." and j + 1 < n and src[j + 1].isdigit() and "." not in src[i:j]
                              and not src[i:j].startswith(("0x", "0b", "0o")))):
                j += 1
            toks.append(Tok("num", src[i:j], i)); i = j; continue
        toks.append(Tok("p", c, i)); i += 1
    return toks


def is_sig(t):
    return t.kind not in ("ws", "lc", "bc")


def text(toks):
    return "".join(t.text for t in toks)


OPEN = {"(": ")", "[": "]", "{": "}"}
CLOSE = {v: k for k, v in OPEN.items()}


def match_close(toks, i):
    """toks[i] is an opening bracket; return index of its closing bracket."""
    assert toks[i].kind == "p" and toks[i].text in OPEN, toks[i]
    depth = 0
    for j in range(i, len(toks)):
        t = toks[j]
        if t.kind != "p":
            continue
        if t.text in OPEN:
            depth += 1
        elif t.text in CLOSE:
            depth -= 1
            if depth == 0:
                return j
    raise LexError("unbalanced bracket at token %d (%r)" % (i, toks[i].text))


def next_sig(toks, i):
    """index of the first significant token at or after i (or len)"""
    while i < len(toks) and not is_sig(toks[i]):
        i += 1
    return i


def prev_sig(toks, i):
    while i >= 0 and not is_sig(toks[i]):
        i -= 1
    return i


def _item_start(toks, i):
    """Walk back from the `fn`/`impl` keyword at i over qualifiers, visibility,
    attributes and doc comments; return index of the first token of the item."""
    start = i
    j = prev_sig(toks, i - 1)
    while j >= 0:
        t = toks[j]
        if t.kind == "id" and t.text in ("pub", "unsafe", "const", "async", "extern", "default"):
            start = j; j = prev_sig(toks, j - 1); continue
        if t.kind == "str" and j > 0 and toks[prev_sig(toks, j - 1)].text == "extern":
            j = prev_sig(toks, j - 1); continue
        if t.kind == "p" and t.text == ")":
            # pub(crate) / pub(super)
            d, k = 0, j
            while k >= 0:
                if toks[k].kind == "p" and toks[k].text == ")":
                    d += 1
                elif toks[k].kind == "p" and toks[k].text == "(":
                    d -= 1
                    if d == 0:
                        break
                k -= 1
            p = prev_sig(toks, k - 1)
            if p >= 0 and toks[p].text == "pub":
                start = p; j = prev_sig(toks, p - 1); continue
            break
        if t.kind == "p" and t.text == "]":
            d, k = 0, j
            while k >= 0:
                if toks[k].kind == "p" and toks[k].text == "]":
                    d += 1
                elif toks[k].kind == "p" and toks[k].text == "[":
                    d -= 1
                    if d == 0:
                        break
                k -= 1
            p = prev_sig(toks, k - 1)
            if p >= 0 and toks[p].text == "#":
                start = p; j = prev_sig(toks, p - 1); continue
            if p >= 1 and toks[p].text == "!" and toks[prev_sig(toks, p - 1)].text == "#":
                break
            break
        break
    # leading doc comments directly above
    k = start - 1
    while k >= 0 and toks[k].kind in ("ws", "lc"):
        if toks[k].kind == "lc" and toks[k].text.startswith("///"):
            start = k
        elif toks[k].kind == "lc":
            break
        k -= 1
    return start


Item = namedtuple("Item", "start head_kw name_idx body_open body_close")


def find_fns(toks, name, lo=0, hi=None):
    """All `fn name` items whose `fn` keyword lies in toks[lo:hi]."""
    hi = len(toks) if hi is None else hi
    out = []
    i = lo
    while i < hi:
        t = toks[i]
        if t.kind == "id" and t.text == "fn":
            j = next_sig(toks, i + 1)
            if j < hi and toks[j].kind == "id" and toks[j].text == name:
                # find body '{' at bracket depth 0
                k = j + 1
                depth = 0
                body_open = None
                while k < len(toks):
                    tk = toks[k]
                    if tk.kind == "p":
                        if tk.text in "([":
                            depth += 1
                        elif tk.text in ")]":
                            depth -= 1
                        elif tk.text == "{" and depth == 0:
                            body_open = k; break
                        elif tk.text == ";" and depth == 0:
                            break
                    k += 1
                if body_open is not None:
                    out.append(Item(_item_start(toks, i), i, j, body_open, match_close(toks, body_open)))
                    i = body_open  # nested fns inside the body are still searched
        i += 1
    return out


def find_blocks(toks, kw, header_re, lo=0, hi=None):
    """Blocks introduced by keyword kw (`impl`, `mod`, `trait`) whose header text
    (whitespace-normalised, from kw to the opening brace) matches header_re."""
    hi = len(toks) if hi is None else hi
    rx = re.compile(header_re)
    out = []
    for i in range(lo, hi):
        t = toks[i]
        if t.kind == "id" and t.text == kw:
            p = prev_sig(toks, i - 1)
            if kw == "impl" and p >= 0 and toks[p].kind == "p" and toks[p].text in (":", "(", ",", ">", "&", "<", "+", "="):
                # `impl Trait` in type position
                if not (toks[p].text == ">" ):
                    continue
            k = i + 1
            body_open = None
            depth = 0
            while k < len(toks):
                tk = toks[k]
                if tk.kind == "p":
                    if tk.text in "([":
                        depth += 1
                    elif tk.text in ")]":
                        depth -= 1
                    elif tk.text == "{" and depth == 0:
                        body_open = k; break
                    elif tk.text == ";" and depth == 0:
                        break
                k += 1
            if body_open is None:
                continue
            header = " ".join(x.text for x in toks[i:body_open] if is_sig(x))
            if rx.fullmatch(header) or rx.search(header) and header_re.startswith("(?s)"):
                out.append(Item(_item_start(toks, i), i, None, body_open, match_close(toks, body_open)))
    return out


def find_macro(toks, name):
    for i, t in enumerate(toks):
        if t.kind == "id" and t.text == "macro_rules":
            j = next_sig(toks, i + 1)
            if toks[j].text != "!":
                continue
            k = next_sig(toks, j + 1)
            if toks[k].kind == "id" and toks[k].text == name:
                b = next_sig(toks, k + 1)
                return Item(_item_start(toks, i), i, k, b, match_close(toks, b))
    return None


def line_of(src, pos):
    return src.count("\n", 0, pos) + 1
