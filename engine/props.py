"""Per-property configuration: which units decide a property, which obligations of a
shared unit belong to it, and how a failed obligation is replayed against the real code."""

C01_ARITH = [
    r"^(zero_divisor_eval_error|undefined_eval_error|numerical_type_error|sub|arena_from_i64|arena_from_isize|Number_is_integer|Number_is_positive|idiv|remainder|ibig_rem_floor|modulus|int_floor_div|bitwise_complement|and|or|xor|shr|shl|gcd|binary_pow)::",
    r"^add::(body|post#[12])$", r"^mul::(body|post#1)$", r"^neg::(body|post#[12])$", r"^abs::(body|post#[12])$",
    r"^max::(body|post#[12])$", r"^min::(body|post#[12])$", r"^Number_sign::(body|post#[12])$",
    r"^Number_is_zero::(body|post#[12])$", r"^Number_is_negative::(body|post#[12])$", r"^int_pow::(body|post#[123])$",
    r"^lemma::",
]
C02_ARITH = [
    r"^(float|unary_float_fn_template|sin|cos|tan|log|exp|asin|acos|atan|float_fractional_part|float_integer_part|sqrt|atan2|Number_div|div|float_pow|pow|round|floor|ceiling|truncate|zero_divisor_eval_error|undefined_eval_error)::",
    r"^add::(body|post#[34])$", r"^mul::(body|post#[23])$", r"^neg::(body|post#3)$", r"^abs::(body|post#3)$",
    r"^max::(body|post#3)$", r"^min::(body|post#3)$", r"^int_pow::(body|post#[14])$",
    r"^Number_is_zero::(body|post#3)$", r"^Number_is_negative::(body|post#3)$", r"^Number_sign::(body|post#3)$",
]

PROPS = {
    "C01": {
        "title": "Integer arithmetic is exact at every magnitude",
        "v_units": ["arith"], "ob_filter": {"arith": C01_ARITH},
        "k_groups": [],
        "replay": "arith",
        "level": "proof",
    },
    "C02": {
        "title": "Float and mixed-type evaluation follows IEEE-754 with ISO checks",
        "v_units": ["arith"], "ob_filter": {"arith": C02_ARITH},
        "k_groups": [],
        "replay": "arith_float",
        "level": "proof",
    },
    "C04": {
        "title": "Arithmetic comparison is exact and self-consistent",
        "v_units": ["numcmp"], "s_checks": ["cmp_instrs"],
        "k_groups": [],
        "replay": "arith_cmp",
        "level": "proof",
    },
    "C40": {
        "title": "Inference-limited execution is deterministic and faithful",
        "v_units": ["cwil"],
        "k_groups": [],
        "replay": None,
        "level": "proof",
    },
    "C33": {
        "title": "Heap writes never exceed the reserved capacity",
        "v_units": ["heap"],
        "ob_filter": {"heap": [r"^(InnerHeap_grow|Heap_grow|Heap_new|Heap_with_cell_capacity|Heap_free_space|Heap_cell_len|Heap_byte_len|Heap_is_empty|Heap_truncate|Heap_push_cell|Heap_append|Heap_copy_pstr_within|ReservedHeapSection_cell_len|ReservedHeapSection_push_cell|ReservedHeapSection_push_pstr_segment|pstr_sentinel_length)::"]},
        "k_groups": [],
        "replay": "heap",
        "level": "proof",
    },
    "C20": {
        "title": "Strings behave exactly like the character lists they denote",
        "v_units": ["heap"],
        "ob_filter": {"heap": [r"^(pstr_sentinel_length|Heap_heap_cell_alignment|Heap_pstr_tail_idx|ReservedHeapSection_push_pstr_segment|scan_slice_to_str_from_start|Heap_compute_pstr_size)::", r"^lemma::(lemma_layout_agreement|lemma_scan_is_seg|lemma_first_zero_bounds|lemma_pstr_cells_nonneg)$"]},
        "k_groups": [],
        "replay": "heap",
        "level": "proof",
    },
    "C06": {
        "title": "Clause selection returns exactly the clauses whose heads unify",
        "v_units": ["indexkey"], "s_checks": ["switch_routes"],
        "k_groups": [],
        "replay": "index",
        "level": "proof",
    },
    "C18": {
        "title": "Text decoding does not depend on how input arrives",
        "v_units": ["charreader"],
        "k_groups": [],
        "replay": "charreader",
        "level": "proof",
    },
}
