"""Per-property configuration: which units decide a property, and how a failed
obligation is replayed against the real code."""

# v_units: Verus units (contracts/<unit>/unit.py); k_groups: Kani harness groups (kani/<group>.py)
# s_checks: structural table checks (engine/structural.py)
# fn_filter: only obligations of these functions count for the property (None = all of the unit)
PROPS = {
    "C01": {
        "title": "Integer arithmetic is exact at every magnitude",
        "v_units": ["arith"],
        "k_groups": [],
        "replay": "arith",
        "level": "proof",
    },
}
