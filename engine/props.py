"""Per-property configuration: which units decide a property, which obligations of a
shared unit belong to it, and how a failed obligation is replayed against the real code."""

C01_ARITH = [
    r"^(zero_divisor_eval_error|undefined_eval_error|numerical_type_error|sub|arena_from_i64|arena_from_isize|arena_from_usize|Number_is_integer|Number_is_positive|idiv|remainder|ibig_rem_floor|modulus|int_floor_div|bitwise_complement|and|or|xor|shr|shl|gcd|binary_pow|rdiv)::", r"^rational_from_number::(body|post#[123])$",
    r"^add::(body|post#[12])$", r"^mul::(body|post#1)$", r"^neg::(body|post#[12])$", r"^abs::(body|post#[12])$",
    r"^max::(body|post#[12])$", r"^min::(body|post#[12])$", r"^Number_sign::(body|post#[12])$",
    r"^Number_is_zero::(body|post#[12])$", r"^Number_is_negative::(body|post#[12])$", r"^int_pow::(body|post#[123])$",
    r"^lemma::(?!lemma_dashu)",
]
C02_ARITH = [
    r"^lemma::lemma_dashu_ratio_to_f64_correctly_rounded$",
    r"^(rnd_i|rnd_f|result_f|float_i_to_f|float_r_to_f|float|unary_float_fn_template|sin|cos|tan|log|exp|asin|acos|atan|float_fractional_part|float_integer_part|sqrt|atan2|Number_div|div|float_pow|pow|round|floor|ceiling|truncate|zero_divisor_eval_error|undefined_eval_error)::", r"^rational_from_number::(body|post#4)$",
    r"^add::(body|post#[34])$", r"^mul::(body|post#[23])$", r"^neg::(body|post#3)$", r"^abs::(body|post#3)$",
    r"^max::(body|post#3)$", r"^min::(body|post#3)$", r"^int_pow::(body|post#[14])$",
    r"^Number_is_zero::(body|post#3)$", r"^Number_is_negative::(body|post#3)$", r"^Number_sign::(body|post#3)$",
]

PROPS = {
    "C01": {
        "title": "Integer arithmetic is exact at every magnitude",
        "v_units": ["arith", "gcd"], "ob_filter": {"arith": C01_ARITH},
        "k_groups": ["fixnum_repr", "shl_kernel"],
        "replay": "arith", "sweep": "arithall",
        "level": "proof",
    },
    "C02": {
        "title": "Float and mixed-type evaluation follows IEEE-754 with ISO checks",
        "v_units": ["arith"], "ob_filter": {"arith": C02_ARITH},
        "k_groups": ["float_kernels"],
        "replay": "arith_float",
        "level": "proof",
    },
    "C04": {
        "title": "Arithmetic comparison is exact and self-consistent",
        "v_units": ["numcmp"], "s_checks": ["cmp_instrs"],
        "k_groups": [],
        "replay": "arith_cmp",
        "level": "proof",
    },
    "C40": {
        "title": "Inference-limited execution is deterministic and faithful",
        "v_units": ["cwil"],
        "k_groups": [],
        "replay": "cwil",
        "level": "proof",
    },
    "C33": {
        "title": "Heap writes never exceed the reserved capacity",
        "v_units": ["heap"],
        "ob_filter": {"heap": [r"^(InnerHeap_grow|Heap_grow|Heap_new|Heap_with_cell_capacity|Heap_free_space|Heap_cell_len|Heap_byte_len|Heap_is_empty|Heap_truncate|Heap_push_cell|Heap_append|Heap_copy_pstr_within|Heap_reserve|Heap_copy_slice_to_end|ReservedHeapSection_cell_len|ReservedHeapSection_push_cell|ReservedHeapSection_push_pstr_segment|ReservedHeapSection_push_pstr|pstr_sentinel_length)::", r"^lemma::(lemma_pushed_nonneg|lemma_reservation_suffices|lemma_first_zero_is_zero|lemma_first_zero_bounds|lemma_pstr_cells_nonneg)$"]},
        "k_groups": [],
        "replay": "heap",
        "level": "proof",
    },
    "C20": {
        "title": "Strings behave exactly like the character lists they denote",
        "v_units": ["heap", "pstrcmp", "pstrunify"], "sweep": "strlist",
        # builtins that walk strings (skip_max_list, atom/char conversions) live outside the anchor files
        "extra_files": ["src/machine/system_calls.rs", "src/lib/lists.pl", "src/lib/builtins.pl"],
        "ob_filter": {"heap": [r"^(pstr_sentinel_length|Heap_heap_cell_alignment|Heap_pstr_tail_idx|ReservedHeapSection_push_pstr_segment|ReservedHeapSection_push_pstr|scan_slice_to_str_from_start|Heap_compute_pstr_size)::", r"^lemma::(lemma_layout_agreement|lemma_scan_is_seg|lemma_first_zero_bounds|lemma_pstr_cells_nonneg|lemma_pushed_nonneg|lemma_reservation_suffices|lemma_first_zero_is_zero)$"]},
        "k_groups": [],
        "replay": "heap",
        "level": "proof",
    },
    "C06": {
        "title": "Clause selection returns exactly the clauses whose heads unify",
        "v_units": ["indexkey", "indexmerge", "switchsel"], "s_checks": ["switch_routes", "lookahead", "dynamic_dead_end"],
        "k_groups": [],
        "replay": "index", "sweep_quick": True,   # the recorded finding (assertz after asserta) is replayed on every run

        "level": "proof",
    },
    "C18": {
        "title": "Text decoding does not depend on how input arrives",
        "v_units": ["charreader", "chanstream"],
        "k_groups": [],
        "replay": "charreader",
        "level": "proof",
    },
    "C03": {
        "title": "Arithmetic does not depend on how the expression reaches is/2",
        "v_units": ["regalloc"], "s_checks": ["arith_tables", "arith_interm"], "k_groups": [],
        "replay": "paths",
        "level": "other",
        "explanation": "three parts. (1) Verus, unit regalloc: the register pool that every arithmetic intermediate is taken from (DebrayAllocator::alloc_reg_to_non_var) hands out only registers not marked in use; structural arith_interm: compile_is takes every intermediate from that pool (Level::Deep) -- the repaired defect 11 wrote them to a live argument register. (2) structural table agreement: for every evaluable functor the compiled evaluator (get_*_instr -> Instruction -> *_instr) and the run-time evaluator (arith_eval_by_metacall) are read off the current text and must call the same kernel with the same operand order and result wrapping; with the kernels' contracts (C01/C02) same kernel => same number or same formal error. Not a semantic proof of the evaluators.",
    },
    "C05": {
        "title": "Equal integers behave identically regardless of how they were produced",
        "v_units": ["unifynum", "numcmp", "arith", "switchsel", "termcmp"],
        "ob_filter": {"switchsel": [r"^select_switch_on_term_index::"], "termcmp": [r"^ParallelHeapIter_parallel_cmp::", r"^MachineState_(compare_term_test|eq_test)::"], "arith": [r"^(arena_from_i64|arena_from_isize|arena_from_usize|rnd_i|round|floor|ceiling|truncate)::"], "numcmp": [r"^(Number_cmp|Number_eq|Number_partial_cmp_usize|Number_eq_usize)::", r"^lemma::lemma_int_cmp_by_value$"]},
        "s_checks": ["switch_routes"],
        "k_groups": ["fixnum_repr"],
        "replay": "index", "replay_by_unit": {"numcmp": "intuse", "arith": "intuse", "unifynum": "intuse"}, "sweep": ["index", "intuse"],
        "level": "proof",
    },
    "C13": {
        "title": "compare/3 implements the standard order of terms",
        "v_units": ["numcmp", "termcmp", "pstrcmp"], "ob_filter": {"numcmp": [r"^(Number_cmp|Number_partial_cmp)::", r"^lemma::(?!lemma_dashu)"], "pstrcmp": [r"^(compare_pstr_slices|scan_slice_to_str|pstr_sentinel_length)::", r"^lemma::lemma_cell_split$"]},
        "k_groups": ["order_kernels"], "s_checks": ["atom_ord"],
        "replay": "arith_cmp", "replay_by_unit": {"termcmp": "termorder", "pstrcmp": "heap"}, "sweep": "termorder",
        "level": "proof",
    },
    "C21": {
        "title": "Atom identity is text identity",
        "v_units": [], "s_checks": ["atom_guards", "atom_ord"], "k_groups": ["atom_inline"],
        "replay": "atoms", "sweep": "atoms",
        "level": "proof",
    },
    "C55": {
        "title": "writeq and print quote and space exactly as ISO requires",
        "v_units": ["quoting"], "k_groups": ["quoting"],
        "replay": "quoting",
        "level": "proof",
        "explanation": "Verus: the quoting decision (non_quoted_token, non_quoted_graphic_token), the per-character escapes (char_to_string) and the atom writer print_op_addendum are proved, for atoms of every length over all of Unicode (class predicates uninterpreted), against a specification written from the property statement; Kani re-checks the escapes on the real String code and (thorough tier, bounded: atoms of at most 4 ASCII characters) the decision with std's real Unicode tables",
    },
}


# Functions that a property's mechanisms name (or that sit between them and the caller) but that could not be brought under
# a contract. Their token text is hashed into the ledger; when it changes, the contracts say nothing about the new text:
# the check is UNDECIDED for that function and the property's replay oracle stands in (bounded), see DESIGN 8.8.
WATCH = {
    "C06": [("src/indexing.rs", "compute_indices"), ("src/indexing.rs", "index_term"), ("src/indexing.rs", "index_constant", r"impl < I : Indexer > CodeOffsets < I >"),
            ("src/indexing.rs", "index_structure", r"impl < I : Indexer > CodeOffsets < I >"), ("src/indexing.rs", "index_list", r"impl < I : Indexer > CodeOffsets < I >"),
            ("src/indexing.rs", "switch_on", r"impl Indexer for StaticCodeIndices"), ("src/indexing.rs", "switch_on", r"impl Indexer for DynamicCodeIndices"),
            ("src/indexing.rs", "second_level_index", r"impl Indexer for StaticCodeIndices"), ("src/indexing.rs", "second_level_index", r"impl Indexer for DynamicCodeIndices"),
            ("src/indexing.rs", "switch_on_list", r"impl Indexer for StaticCodeIndices"), ("src/indexing.rs", "switch_on_list", r"impl Indexer for DynamicCodeIndices"),
            ("src/indexing.rs", "merge_clause_index"), ("src/machine/mod.rs", "next_applicable_clause"), ("src/machine/mod.rs", "next_inner_applicable_clause"),
            ("src/machine/mod.rs", "next_clause_applicable")],
    "C20": [("src/machine/copier.rs", "copy_partial_string"), ("src/machine/copier.rs", "copy_list"), ("src/machine/heap.rs", "slice_to_str"), ("src/machine/heap.rs", "char_at"),
            ("src/machine/partial_string.rs", "pre_cycle_discovery_stepper"), ("src/machine/partial_string.rs", "post_cycle_discovery_stepper"),
            ("src/machine/partial_string.rs", "to_string_mut"), ("src/machine/partial_string.rs", "walk_hare_to_cycle_end"),
            ("src/machine/machine_state_impl.rs", "try_from_list"), ("src/machine/machine_state_impl.rs", "try_from_inner_list"), ("src/machine/machine_state_impl.rs", "try_from_partial_string")],
    "C13": [("src/heap_iter.rs", "from", r"impl < 'a > ParallelHeapIter < 'a >")],
    "C55": [("src/heap_print.rs", "requires_space"), ("src/heap_print.rs", "ambiguity_check"), ("src/heap_print.rs", "print_op"), ("src/heap_print.rs", "print_impromptu_atom")],
    "C21": [("src/atom_table.rs", "build_with", r"impl AtomTable"), ("src/atom_table.rs", "lookup_str"), ("src/atom_table.rs", "new_inlined", r"impl Atom"),
            ("src/atom_table.rs", "new_inlined", r"impl AtomCell"), ("src/atom_table.rs", "new_char_inlined"), ("src/atom_table.rs", "inlined_to_str"),
            ("src/atom_table.rs", "inlined_str"), ("src/atom_table.rs", "as_str"), ("src/atom_table.rs", "as_ptr"), ("src/atom_table.rs", "is_inlined"), ("src/atom_table.rs", "is_static"),
            ("src/atom_table.rs", "equivalent"), ("src/atom_table.rs", "hash", r"impl Hash for AtomHashByStr"),
            ("build/static_string_indexing.rs", "static_string_index"), ("build/static_string_indexing.rs", "index_static_strings"), ("build/static_string_indexing.rs", "visit_macro")],
    "C03": [("src/arithmetic.rs", "compile_is"), ("src/codegen.rs", "compile_inlined"), ("src/codegen.rs", "compile_arith_expr"), ("src/codegen.rs", "compile_is_call"),
            ("src/debray_allocator.rs", "mark_non_var"), ("src/codegen.rs", "mark_non_callable"),
            ("src/machine/dispatch.rs", "re:.*_instr"), ("src/machine/arithmetic_ops.rs", "get_number"), ("src/machine/arithmetic_ops.rs", "get_rational")],
    "C33": [("src/machine/heap.rs", "sized_iter_to_heap_list"), 
            ("src/machine/heap.rs", "functor_writer", r"impl Heap")],
}
