"""Oracle for C05 (an integer behaves the same however it was produced): every integer-consuming context is run once
with the literal and once with the same value produced through each computation path (arithmetic that passes through a
big integer and shrinks back, parsed text, length/2, atom_length/2, succ/2, rounding); the answers must be equal."""
import os, re, subprocess
import replay_arith

PROGRAM = r"""
:- use_module(library(lists)).
:- use_module(library(format)).
:- use_module(library(between)).
:- use_module(library(iso_ext)).
:- use_module(library(assoc)).
:- use_module(library(ordsets)).
:- use_module(library(terms)).
:- dynamic(q/2).
:- dynamic(ctx/4).
% ---- ways to produce the integer V
path(is, V, X) :- X is V.
path(big_sub, V, X) :- X is 2^70 - 2^70 + V.
path(big_sub2, V, X) :- X is (2^70 + V) - 2^70.
path(big_div, V, X) :- X is (V * 2^64) // 2^64.
path(big_shift, V, X) :- X is (V * 2^64) >> 64.
path(big_max, V, X) :- X is max(V, -(2^70)).
path(big_mod, V, X) :- V >= 0, X is (2^70 + V) mod 2^70.
path(big_gcd, V, X) :- V > 0, X is gcd(V * 2^64, V * 3^50).
path(text, V, X) :- number_codes(V, Cs), number_codes(X, Cs).
path(chars, V, X) :- number_chars(V, Cs), atom_chars(A, Cs), atom_number(A, X).
path(round, V, X) :- abs(V) < 2^50, X is round(V * 1.0).
path(trunc, V, X) :- abs(V) < 2^50, X is truncate(V + 0.0).
path(length, V, X) :- V >= 0, V < 64, length(L, V), length(L, X).
path(atom_length, V, X) :- V >= 0, V < 64, length(L, V), maplist(=(a), L), atom_chars(A, L), atom_length(A, X).
path(succ, V, X) :- V > 0, V < 2^50, P is V - 1, succ(P, X).
path(pow, 1, X) :- X is (-1)^(2^64).
atom_number(A, N) :- atom_chars(A, Cs), number_chars(N, Cs).
% ---- contexts that consume an integer; small(..) ones only for 0..9
ctx(any, eq, N, R) :- ( N == N -> R = yes ; R = no ).
ctx(any, arith_succ, N, R) :- R is N + 1.
ctx(any, arith_neg, N, R) :- R is -N.
ctx(any, arith_mul, N, R) :- R is N * N.
ctx(any, arith_and, N, R) :- R is N /\ 255.
ctx(any, arith_xor, N, R) :- R is xor(N, 1).
ctx(any, arith_not, N, R) :- R is \ N.
ctx(any, arith_shr, N, R) :- R is N >> 1.
ctx(any, arith_mod, N, R) :- R is N mod 7.
ctx(any, arith_div, N, R) :- R is N // 3.
ctx(any, arith_min, N, R) :- R is min(N, 3).
ctx(any, arith_float, N, R) :- R is N * 1.0.
ctx(any, arith_sign, N, R) :- R is sign(N).
ctx(any, arith_abs, N, R) :- R is abs(N).
ctx(any, arith_gcd, N, R) :- R is gcd(N, 12).
ctx(any, cmp_lt, N, R) :- ( N < 3 -> R = yes ; R = no ).
ctx(any, cmp_eq0, N, R) :- ( N =:= 0 -> R = yes ; R = no ).
ctx(any, integer, N, R) :- ( integer(N) -> R = yes ; R = no ).
ctx(any, order3, N, R) :- compare(R, N, 3).
ctx(any, order_f, N, R) :- compare(R, N, 3.0).
ctx(any, order_a, N, R) :- compare(R, N, a).
ctx(any, msort, N, R) :- msort([5, N, 0, a, 2.0, N], R).
ctx(any, sort, N, R) :- sort([5, N, 0, a, 2.0, N], R).
ctx(any, number_codes, N, R) :- number_codes(N, R).
ctx(any, number_chars, N, R) :- number_chars(N, R).
ctx(any, format_d, N, R) :- phrase(format_("~d|~w|~q|~a", [N, N, N, x]), R).
ctx(any, assert, N, R) :- retractall(q(_, _)), assertz(q(0, a)), assertz(q(N, b)), assertz(q(foo, c)), findall(K-V, q(K, V), R).
ctx(any, db_lookup, N, R) :- number_codes(N, Cs), number_codes(L, Cs), retractall(q(_, _)), assertz(q(0, a)), assertz(q(N, b)), assertz(q(f(x), c)), assertz(q(1.5, d)), findall(V, q(L, V), R).
ctx(any, db_lookup2, N, R) :- number_codes(N, Cs), number_codes(L, Cs), retractall(q(_, _)), assertz(q(0, a)), assertz(q(L, b)), assertz(q(f(x), c)), findall(V, q(N, V), R).
ctx(any, db_retract, N, R) :- number_codes(N, Cs), number_codes(L, Cs), retractall(q(_, _)), assertz(q(N, b)), assertz(q(zz, c)), ( retract(q(L, _)) -> findall(K, q(K, _), R) ; R = not_retracted ).
ctx(any, static_lookup, N, R) :- findall(V, sq(N, V), R).
ctx(any, static_lookup2, N, R) :- findall(V, sq2(k, N, V), R).
ctx(any, struct_arg, N, R) :- findall(V, sq3(f(N), V), R).
ctx(any, copy, N, R) :- copy_term(f(N, _), R).
ctx(any, findall, N, R) :- findall(N, member(_, [a, b]), R).
ctx(any, functor0, N, R) :- functor(R, N, 0).
ctx(any, functor_name, N, R) :- functor(N, R, _).
ctx(any, univ, N, R) :- N =.. R.
ctx(any, assoc, N, R) :- list_to_assoc([0-a, 5-b], A0), put_assoc(N, A0, c, A1), assoc_to_list(A1, R).
ctx(any, ordset, N, R) :- ord_union([0, 5], [N], R).
ctx(any, hash_var, N, R) :- ( var(N) -> R = var ; atomic(N) -> R = atomic ; R = other ).
ctx(any, ground, N, R) :- term_variables(f(N), R).
ctx(small, functor, N, R) :- functor(R, foo, N).
ctx(small, functor_chk, N, R) :- ( functor(foo(a, b), foo, N) -> R = yes ; R = no ).
ctx(small, arg, N, R) :- arg(N, f(a, b, c, d, e, f, g, h, i), R).
ctx(small, length, N, R) :- length(R, N).
ctx(small, length_chk, N, R) :- ( length([a, b], N) -> R = yes ; R = no ).
ctx(small, nth0, N, R) :- nth0(N, [a, b, c, d, e, f, g, h, i, j], R).
ctx(small, nth1, N, R) :- nth1(N, [a, b, c, d, e, f, g, h, i, j], R).
ctx(small, atom_length, N, R) :- ( atom_length(ab, N) -> R = yes ; R = no ).
ctx(small, sub_atom_b, N, R) :- sub_atom(abcdefghijkl, N, 2, _, R).
ctx(small, sub_atom_l, N, R) :- sub_atom(abcdefghijkl, 1, N, _, R).
ctx(small, sub_atom_a, N, R) :- sub_atom(abcdefghijkl, _, 2, N, R).
ctx(small, between_lo, N, R) :- findall(X, between(N, 9, X), R).
ctx(small, between_hi, N, R) :- findall(X, between(0, N, X), R).
ctx(small, between_chk, N, R) :- ( between(0, 5, N) -> R = yes ; R = no ).
ctx(small, succ_fwd, N, R) :- succ(N, R).
ctx(small, succ_bwd, N, R) :- succ(R, N).
ctx(small, char_code, N, R) :- C is N + 97, char_code(R, C).
ctx(small, atom_codes, N, R) :- C is N + 97, atom_codes(R, [C, C]).
ctx(small, shl, N, R) :- R is 1 << N.
ctx(small, pow, N, R) :- R is 3 ^ N.
ctx(small, format_star, N, R) :- phrase(format_("~*c|~t~w~*|", [N, 0'x, a, N]), R).
ctx(small, numbervars, N, R) :- T = f(_, _), numbervars(T, N, E), R = T-E.
ctx(small, sortkey, N, R) :- sort(N, @<, [f(b, 1, z), f(a, 2, y), f(c, 0, x)], R).
ctx(small, numlist, N, R) :- numlist(0, N, R).
ctx(small, sum_list, N, R) :- sum_list([N, 1, N], R).
ctx(small, op, N, R) :- P is N * 100, catch(( op(P, xfx, myop), current_op(R, xfx, myop) ), E, R = err(E)), op(0, xfx, myop).
value(any, V) :- member(V, [0, 1, 2, 3, 7, 255, 256, 65536, -1, -2, -255, 4294967296, -4294967296,
                            36028797018963967, 36028797018963968, -36028797018963968, -36028797018963969, 18014398509481984,
                            9223372036854775807, -9223372036854775808, 18446744073709551616, -18446744073709551616]).
value(small, V) :- between(0, 9, V).
sq(V, V) :- value(any, V).
sq(V, lit7) :- V = 7.
sq(36028797018963968, lit_big).
sq(0, lit0).
sq(-1, lit_m1).
sq(a, atom).
sq(18446744073709551616, lit_2_64).
sq2(k, 0, z). sq2(k, 36028797018963968, big). sq2(k, 7, seven). sq2(j, 7, other). sq2(k, -36028797018963969, negbig).
sq3(f(0), z). sq3(f(36028797018963968), big). sq3(f(7), seven). sq3(g(7), other). sq3(f(-1), m1).
result(G, R, Out) :- ( catch(G, E, Out0 = err(E)) -> ( var(Out0) -> Out0 = ok(R) ; true ) ; Out0 = failed ), copy_term(Out0, Out), numbervars(Out, 0, _).
main :-
    ( member(Kind, [any, small]), value(Kind, V), clause(ctx(Kind0, C, _, _), _), ( Kind0 == any ; Kind == small ),
      \+ skip(C, V),
      result(ctx(Kind0, C, V, R0), R0, Lit),
      path(P, V, X),
      ( X =:= V -> true ; format("MISMATCH ~q ~q ~q literal=~q produced=~q~n", [path, P, V, V, X]) ),
      result(ctx(Kind0, C, X, R1), R1, Got),
      ( Lit == Got -> true ; format("MISMATCH ~q ~q ~q literal=~q produced=~q~n", [C, P, V, Lit, Got]) ),
      fail
    ; true ),
    format("DONE~n", []), halt.
% contexts whose cost grows with the value
skip(C, V) :- abs(V) > 65536, member(C, [arith_mul]), fail.
:- initialization(main).
"""


def _run(binary, path):
    return subprocess.run([binary, "-f", "--no-add-history", path], capture_output=True, text=True, timeout=900, stdin=subprocess.DEVNULL)


def replay_all(repo, by_ob, scratch, log):
    binary = replay_arith.build_binary(repo, log)
    if not binary:
        return {ob: None for ob in by_ob}
    return run_with(binary, by_ob, scratch, log)


def run_with(binary, by_ob, scratch, log):
    os.makedirs(scratch, exist_ok=True)
    path = os.path.join(scratch, "replay_intuse.pl")
    open(path, "w", encoding="utf-8").write(PROGRAM)
    p = _run(binary, path)
    if "overwriting" in (p.stdout + p.stderr):
        log.append("oracle program is malformed (discontiguous clauses were overwritten): not used")
        return {ob: None for ob in by_ob}
    fails = []
    n = 0
    for line in p.stdout.split("\n"):
        m = re.match(r"MISMATCH (\S+) (\S+) (\S+) literal=(.*) produced=(.*)$", line)
        if m:
            n += 1
            if len(fails) < 40:
                fails.append({"goal": "context %s with %s produced by path %s (engine/replay_intuse.py)" % (m.group(1), m.group(3), m.group(2)),
                              "got": ["v", m.group(5)], "expected": ["v", m.group(4)], "op": m.group(1), "a": m.group(3), "b": m.group(2)})
    if "DONE" not in p.stdout and not fails:
        if p.returncode != 0 and "syntax_error" not in (p.stdout + p.stderr):
            fails.append({"goal": "engine/replay_intuse.py program", "got": ["crash", (p.stderr or "")[-300:].strip()], "expected": ["v", "DONE"], "op": "main", "a": None, "b": None})
        else:
            log.append("oracle program did not run to the end: " + (p.stdout + p.stderr)[:400])
            return {ob: None for ob in by_ob}
    log.append("integer-producer replay: %d disagreements (exit %s)" % (n, p.returncode))
    return {ob: fails for ob in by_ob}


def rerun(rec, repo):
    log = []
    r = replay_all(repo, {rec["obligation"]: []}, os.path.join(os.path.dirname(os.path.dirname(os.path.abspath(__file__))), ".scratch", "replay"), log)
    print("\n".join(log))
    for f in r[rec["obligation"]] or []:
        print("STILL FAILS:", f["goal"], f["got"], f["expected"])
    return 1 if r[rec["obligation"]] else 0
