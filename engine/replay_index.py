"""Replay for clause-selection obligations (C06): small indexed predicates are consulted by the real
binary and called with first arguments of every constant kind, literal and computed."""
import os, re, subprocess
import replay_arith

PROGRAM = r"""
:- use_module(library(format)).
:- use_module(library(lists)).
p(2, two). p(36028797018963968, big). p(a, atom). p(1.5, float). p(-36028797018963969, negbig). p(7 , seven). p("s", str). p(f(x), struct). p(100000000000000000000, huge).
q(100000000000000000000, h1). q(100000000000000000001, h2). q(3, three).
:- dynamic(d/2).
% dynamic predicates: for each kind of first argument, build an index (two distinct keys), add a third key,
% retract it, call it indexed, re-assert under the same key; also a second clause under an existing key
keys(struct, [f(1), g(1), h(1)]). keys(const, [a, b, c]). keys(int, [1, 2, 3]). keys(big, [36028797018963968, 36028797018963969, 36028797018963970]).
keys(mixed, [a, f(1), [x]]). keys(list, [[p], a, [q]]).
dyn(Kind, Mode) :-
    keys(Kind, [K1, K2, K3]), retractall(d(_, _)),
    add(Mode, d(K1, 1)), add(Mode, d(K2, 2)), add(Mode, d(K3, 3)),
    chk(Kind-Mode-after_add, K3, [3]),
    retract(d(K3, 3)), chk(Kind-Mode-after_retract, K3, []),
    add(Mode, d(K3, 4)), chk(Kind-Mode-after_reassert, K3, [4]),
    add(Mode, d(K1, 5)), ( Mode == z -> E1 = [1, 5] ; E1 = [5, 1] ), chk(Kind-Mode-second_clause, K1, E1),
    retract(d(K1, 1)), chk(Kind-Mode-first_retracted, K1, [5]),
    retract(d(K2, 2)), chk(Kind-Mode-k2_gone, K2, []), chk(Kind-Mode-k3_still, K3, [4]).
add(z, C) :- assertz(C).
add(a, C) :- asserta(C).
chk(Name, K, Expected) :- findall(V, d(K, V), Vs), ( Vs == Expected -> true ; format("MISMATCH ~w got ~q expected ~q~n", [dynamic(Name), Vs, Expected]) ).
t(Name, Goal, Expected) :- findall(R, call(Goal, R), Rs), ( Rs == Expected -> true ; format("MISMATCH ~w got ~q expected ~q~n", [Name, Rs, Expected]) ).
main :-
    t(lit_small, p(2), [two]), t(lit_big, p(36028797018963968), [big]), t(lit_negbig, p(-36028797018963969), [negbig]), t(lit_huge, p(100000000000000000000), [huge]),
    t(lit_atom, p(a), [atom]), t(lit_float, p(1.5), [float]), t(lit_seven, p(7), [seven]),
    X1 is 2^55, t(computed_2pow55, p(X1), [big]),
    X2 is 2^60 - 2^60 + 2, t(computed_shrunk_2, p(X2), [two]),
    X3 is -(2^55) - 1, t(computed_negbig, p(X3), [negbig]),
    X4 is 10^20, t(computed_huge, p(X4), [huge]),
    X5 is 10^20 + 1, t(computed_h2, q(X5), [h2]),
    X6 is 3.0 / 2, t(computed_float, p(X6), [float]),
    X7 is 2^70 - 2^70 + 7, t(computed_shrunk_7, p(X7), [seven]),
    atom_length(abcdefg, X8), t(atom_length_7, p(X8), [seven]),
    ( member(Kind, [struct, const, int, big, mixed, list]), member(Mode, [z, a]), ( catch(dyn(Kind, Mode), E, (format("MISMATCH ~w got ~q expected ~q~n", [dynamic(Kind-Mode), E, no_error]))) -> true ; format("MISMATCH ~w got ~q expected ~q~n", [dynamic(Kind-Mode), failed, success]) ), fail ; true ),
    halt.
:- initialization(main).
"""


# ---- static predicates with mixed first arguments (index construction: CodeOffsets::compute_indices and friends)
KINDS = [("[a,x]", "L1"), ("[b]", "L2"), ('"bc"', "S1"), ("f(1)", "F1"), ("f(2)", "F2"), ("g(1)", "G1"), ("a", "A1"), ("b", "A2"), ("1", "I1"), ("2", "I2"), ("_", "V")]
EQUIV = {"L1": "[a,x]", "L2": "[b]", "S1": "[b,c]", "F1": "f(1)", "F2": "f(2)", "G1": "g(1)", "A1": "a", "A2": "b", "I1": "1", "I2": "2"}
PATTERNS = [
    ["L1", "L2", "F1", "F2"], ["L1", "S1", "F1", "F2"], ["L1", "L2", "F1", "F2", "A1"], ["L1", "L2", "F1", "G1"], ["L1", "F1", "F2"], ["L1", "L2", "F1"],
    ["F1", "F2", "L1", "L2"], ["A1", "A2", "L1", "L2", "F1", "F2"], ["I1", "I2", "F1", "F2", "L1", "S1"], ["L1", "V", "L2", "F1", "F2"], ["F1", "L1", "F2", "L2", "A1", "I1"],
    ["L1", "L2"], ["F1", "F2"], ["A1", "A1", "L1", "L1"], ["S1", "S1", "F1", "F1", "G1"], ["L1", "L2", "F1", "F2", "V"],
]


def static_program():
    text = dict(KINDS)
    inv = {v: k for k, v in KINDS}
    lines, checks = [], []
    for n, pat in enumerate(PATTERNS):
        for j, k in enumerate(pat):
            lines.append("sp%d(%s, %d)." % (n, inv[k], j))
        for qk in ["L1", "L2", "S1", "F1", "F2", "G1", "A1", "A2", "I1", "I2"]:
            exp = [j for j, k in enumerate(pat) if k == "V" or EQUIV[k] == EQUIV[qk]]
            checks.append("t(static(%d,%s), sp%d(%s), %s)" % (n, qk.lower(), n, inv[qk], str(exp).replace(" ", "")))
    return lines, checks


def replay_all(repo, by_ob, scratch, log):
    binary = replay_arith.build_binary(repo, log)
    out = {}
    if not binary:
        return {ob: None for ob in by_ob}
    path = os.path.join(scratch, "replay_index.pl")
    lines, checks = static_program()
    prog = PROGRAM.replace("main :-\n", ":- set_prolog_flag(double_quotes, chars).\n" + "\n".join(lines) + "\nstatic_checks :- " + ",\n    ".join(checks) + ".\nmain :-\n    static_checks,\n", 1)
    open(path, "w").write(prog)
    p = subprocess.run([binary, "-f", "--no-add-history", path], capture_output=True, text=True, timeout=300, stdin=subprocess.DEVNULL)
    fails = []
    for line in p.stdout.split("\n"):
        m = re.match(r"MISMATCH (\S+) got (.*) expected (.*)$", line)
        if m:
            fails.append({"goal": m.group(1), "got": ["v", m.group(2)], "expected": ["v", m.group(3)], "op": "index", "a": None, "b": None})
    log.append("indexed-call replay: %d mismatches" % len(fails))
    for ob in by_ob:
        out[ob] = fails
    return out


def rerun(rec, repo):
    log = []
    r = replay_all(repo, {rec["obligation"]: []}, os.path.join(os.path.dirname(os.path.dirname(os.path.abspath(__file__))), ".scratch"), log)
    fails = r[rec["obligation"]]
    print("\n".join(log))
    for f in fails or []:
        print("STILL FAILS:", f["goal"], f["got"], f["expected"])
    return 1 if fails else 0
