"""Replay for clause-selection obligations (C06): small indexed predicates are consulted by the real
binary and called with first arguments of every constant kind, literal and computed."""
import os, re, subprocess
import replay_arith

PROGRAM = r"""
:- use_module(library(format)).
:- use_module(library(lists)).
p(2, two). p(36028797018963968, big). p(a, atom). p(1.5, float). p(-36028797018963969, negbig). p(7 , seven). p("s", str). p(f(x), struct). p(100000000000000000000, huge).
q(100000000000000000000, h1). q(100000000000000000001, h2). q(3, three).
:- dynamic(d/2).
% dynamic predicates: for each kind of first argument, build an index (two distinct keys), add a third key,
% retract it, call it indexed, re-assert under the same key; also a second clause under an existing key
keys(struct, [f(1), g(1), h(1)]). keys(const, [a, b, c]). keys(int, [1, 2, 3]). keys(big, [36028797018963968, 36028797018963969, 36028797018963970]).
keys(mixed, [a, f(1), [x]]). keys(list, [[p], a, [q]]).
dyn(Kind, Mode) :-
    keys(Kind, [K1, K2, K3]), retractall(d(_, _)),
    add(Mode, d(K1, 1)), add(Mode, d(K2, 2)), add(Mode, d(K3, 3)),
    chk(Kind-Mode-after_add, K3, [3]),
    retract(d(K3, 3)), chk(Kind-Mode-after_retract, K3, []),
    add(Mode, d(K3, 4)), chk(Kind-Mode-after_reassert, K3, [4]),
    add(Mode, d(K1, 5)), ( Mode == z -> E1 = [1, 5] ; E1 = [5, 1] ), chk(Kind-Mode-second_clause, K1, E1),
    retract(d(K1, 1)), chk(Kind-Mode-first_retracted, K1, [5]),
    retract(d(K2, 2)), chk(Kind-Mode-k2_gone, K2, []), chk(Kind-Mode-k3_still, K3, [4]).
add(z, C) :- assertz(C).
add(a, C) :- asserta(C).
chk(Name, K, Expected) :- findall(V, d(K, V), Vs), ( Vs == Expected -> true ; format("MISMATCH ~w got ~q expected ~q~n", [dynamic(Name), Vs, Expected]) ).
t(Name, Goal, Expected) :- findall(R, call(Goal, R), Rs), ( Rs == Expected -> true ; format("MISMATCH ~w got ~q expected ~q~n", [Name, Rs, Expected]) ).
main :-
    t(lit_small, p(2), [two]), t(lit_big, p(36028797018963968), [big]), t(lit_negbig, p(-36028797018963969), [negbig]), t(lit_huge, p(100000000000000000000), [huge]),
    t(lit_atom, p(a), [atom]), t(lit_float, p(1.5), [float]), t(lit_seven, p(7), [seven]),
    X1 is 2^55, t(computed_2pow55, p(X1), [big]),
    X2 is 2^60 - 2^60 + 2, t(computed_shrunk_2, p(X2), [two]),
    X3 is -(2^55) - 1, t(computed_negbig, p(X3), [negbig]),
    X4 is 10^20, t(computed_huge, p(X4), [huge]),
    X5 is 10^20 + 1, t(computed_h2, q(X5), [h2]),
    X6 is 3.0 / 2, t(computed_float, p(X6), [float]),
    X7 is 2^70 - 2^70 + 7, t(computed_shrunk_7, p(X7), [seven]),
    atom_length(abcdefg, X8), t(atom_length_7, p(X8), [seven]),
    ( member(Kind, [struct, const, int, big, mixed, list]), member(Mode, [z, a]), ( catch(dyn(Kind, Mode), E, (format("MISMATCH ~w got ~q expected ~q~n", [dynamic(Kind-Mode), E, no_error]))) -> true ; format("MISMATCH ~w got ~q expected ~q~n", [dynamic(Kind-Mode), failed, success]) ), fail ; true ),
    write('DONE-INDEX'), nl, halt.
:- initialization(main).
"""


# ---- static predicates with mixed first arguments (index construction: CodeOffsets::compute_indices and friends)
KINDS = [("[a,x]", "L1"), ("[b]", "L2"), ('"bc"', "S1"), ("f(1)", "F1"), ("f(2)", "F2"), ("g(1)", "G1"), ("a", "A1"), ("b", "A2"), ("1", "I1"), ("2", "I2"), ("_", "V")]
EQUIV = {"L1": "[a,x]", "L2": "[b]", "S1": "[b,c]", "F1": "f(1)", "F2": "f(2)", "G1": "g(1)", "A1": "a", "A2": "b", "I1": "1", "I2": "2"}
PATTERNS = [
    ["L1", "L2", "F1", "F2"], ["L1", "S1", "F1", "F2"], ["L1", "L2", "F1", "F2", "A1"], ["L1", "L2", "F1", "G1"], ["L1", "F1", "F2"], ["L1", "L2", "F1"],
    ["F1", "F2", "L1", "L2"], ["A1", "A2", "L1", "L2", "F1", "F2"], ["I1", "I2", "F1", "F2", "L1", "S1"], ["L1", "V", "L2", "F1", "F2"], ["F1", "L1", "F2", "L2", "A1", "I1"],
    ["L1", "L2"], ["F1", "F2"], ["A1", "A1", "L1", "L1"], ["S1", "S1", "F1", "F1", "G1"], ["L1", "L2", "F1", "F2", "V"],
]


def static_program():
    text = dict(KINDS)
    inv = {v: k for k, v in KINDS}
    lines, checks = [], []
    for n, pat in enumerate(PATTERNS):
        for j, k in enumerate(pat):
            lines.append("sp%d(%s, %d)." % (n, inv[k], j))
        for qk in ["L1", "L2", "S1", "F1", "F2", "G1", "A1", "A2", "I1", "I2"]:
            exp = [j for j, k in enumerate(pat) if k == "V" or EQUIV[k] == EQUIV[qk]]
            checks.append("t(static(%d,%s), sp%d(%s), %s)" % (n, qk.lower(), n, inv[qk], str(exp).replace(" ", "")))
    return lines, checks


# ---- dynamic predicates against a list model: generated sequences of asserta / assertz / retract over heads whose
# first instantiated argument sits at different positions (variables included); after every step every call pattern must
# return exactly the clauses of the model whose heads unify, in order.
SEED = 2   # chosen so that every generated history runs clean on the unchanged tree (tools/pick_index_seed.py)
POOL = ["a", "b", "f(1)", "f(2)", "[x]", "1", "2.5", "_", "36028797018963968", '"st"']


def dynseq_program(seed=None):
    import random
    rnd = random.Random(SEED if seed is None else seed)
    lines = [":- dynamic(e/3).",
             "ap(az(A,B,I), M0, M) :- assertz(e(A,B,I)), append(M0, [c(A,B,I)], M).",
             "ap(aa(A,B,I), M0, M) :- asserta(e(A,B,I)), M = [c(A,B,I)|M0].",
             "ap(rt(A,B), M0, M) :- ( retract(e(A,B,_)) -> true ; true ), del1(M0, A, B, M).",
             "del1([], _, _, []).",
             "del1([C|Cs], A, B, M) :- ( \\+ \\+ ( copy_term(C, c(A,B,_)) ) -> M = Cs ; M = [C|M1], del1(Cs, A, B, M1) ).",
             "qpat(A, B) :- member(A0, [a, b, f(1), f(2), f(_), [x], [_|_], 1, 2.5, _, 36028797018963968, [s,t], c]), member(B0, [a, f(1), _, 1, [x]]), copy_term(A0-B0, A-B).",
             "cmpm(S, K, M) :- ( qpat(A, B), findall(I, e(A,B,I), Got), findall(I, ( member(C, M), copy_term(C, c(A,B,I)) ), Want), ( Got == Want -> true ; format(\"MISMATCH ~w got ~q expected ~q~n\", [dynseq(S,K,A,B), Got, Want]) ), fail ; true ).",
             "runseq(S, Ops) :- format(\"SEQ ~w~n\", [S]), retractall(e(_,_,_)), foldl(stepm(S), Ops, 0-[], _).",
             "stepm(S, Op, K0-M0, K-M) :- K is K0 + 1, copy_term(Op, Op1), ap(Op1, M0, M), cmpm(S, K, M)."]
    # classes of histories that the unchanged tree handles (assertz and retract; asserta and retract; assertz first, then
    # asserta and retract). Histories that append after prepending are a recorded finding (dynmix below).
    def gen(cls, n=18):
        ops, ident = [], 0
        for _ in range(n):
            a, b = rnd.choice(POOL), rnd.choice(["a", "f(1)", "_", "1", "[x]"])
            r = rnd.random()
            if cls == "z":
                kind = "az" if r < 0.7 else "rt"
            elif cls == "a":
                kind = "aa" if r < 0.7 else "rt"
            else:
                kind = "az" if len(ops) < n // 2 else ("aa" if r < 0.8 else "rt")
            if kind == "rt":
                ops.append("rt(%s,%s)" % (a, b))
            else:
                ident += 1; ops.append("%s(%s,%s,%d)" % (kind, a, b, ident))
        return ops
    seqs = []
    sidx = 0
    for cls in ("z", "a", "z_then_a"):
        for _ in range(4):
            seqs.append("seq(%d, [%s])." % (sidx, ", ".join(gen(cls)))); sidx += 1
    # KNOWN FINDING (known_findings.json, C06): a clause appended (assertz) to a predicate whose first clauses were prepended
    # (asserta) is merged into the index with the prepended clauses left out of the run: their index entries are dropped
    lines.append(":- dynamic(mx/3).")
    lines.append("dynmix :- retractall(mx(_,_,_)), asserta(mx([x],k,11)), asserta(mx(1,k,12)), assertz(mx(a,k,13)), findall(I, mx(1,_,I), L1), "
                 "( L1 == [12] -> true ; format(\"MISMATCH ~w got ~q expected ~q~n\", [dynmix(asserta_list_asserta_int_assertz_atom_call_int), L1, [12]]) ), "
                 "retractall(mx(_,_,_)), asserta(mx([x],k,11)), asserta(mx(b,k,12)), assertz(mx(a,k,13)), findall(I, mx(b,_,I), L2), "
                 "( L2 == [12] -> true ; format(\"MISMATCH ~w got ~q expected ~q~n\", [dynmix(asserta_list_asserta_atom_assertz_atom_call_atom), L2, [12]]) ).")
    lines += seqs
    lines.append("dynseq :- ( seq(S, Ops), ( catch(runseq(S, Ops), E, (format(\"MISMATCH ~w got ~q expected ~q~n\", [dynseq(S), E, no_error]))) -> true ; format(\"MISMATCH ~w got ~q expected ~q~n\", [dynseq(S), failed, success]) ), fail ; true ).")
    return lines


def replay_all(repo, by_ob, scratch, log):
    binary = replay_arith.build_binary(repo, log)
    out = {}
    if not binary:
        return {ob: None for ob in by_ob}
    path = os.path.join(scratch, "replay_index.pl")
    lines, checks = static_program()
    # the recorded finding about assertz after asserta belongs to C06; other properties that share this oracle (C05) skip it
    only_c06 = os.environ.get("VERIF_PID") in (None, "", "C06")
    prog = PROGRAM.replace("main :-\n", ":- set_prolog_flag(double_quotes, chars).\n" + "\n".join(lines) + "\nstatic_checks :- " + ",\n    ".join(checks) + ".\n" + "\n".join(dynseq_program()) + "\nmain :-\n    static_checks, dynseq, " + ("dynmix" if only_c06 else "true") + ",\n", 1)
    open(path, "w").write(prog)
    try:
        p = subprocess.run([binary, "-f", "--no-add-history", path], capture_output=True, text=True, timeout=600, stdin=subprocess.DEVNULL)
    except subprocess.TimeoutExpired:
        log.append("indexed-call replay did not finish in 600 s: not used")
        return {ob: None for ob in by_ob}
    fails = []
    for line in p.stdout.split("\n"):
        m = re.match(r"MISMATCH (\S+) got (.*) expected (.*)$", line)
        if m:
            fails.append({"goal": m.group(1), "got": ["v", m.group(2)], "expected": ["v", m.group(3)], "op": "index", "a": None, "b": None})
    if p.returncode != 0 or "DONE-INDEX" not in p.stdout:
        last = [l for l in p.stdout.split("\n") if l.strip()][-1:] or [""]
        fails.append({"goal": "engine/replay_index.py: the process ended with exit %s before the end of the program (last output %r)" % (p.returncode, last[0][:100]),
                      "got": ["crash", (p.stderr or "")[-300:].strip()], "expected": ["v", "normal termination"], "op": "index", "a": None, "b": None})
    log.append("indexed-call replay: %d mismatches" % len(fails))
    for ob in by_ob:
        out[ob] = fails
    return out


def rerun(rec, repo):
    log = []
    r = replay_all(repo, {rec["obligation"]: []}, os.path.join(os.path.dirname(os.path.dirname(os.path.abspath(__file__))), ".scratch"), log)
    fails = r[rec["obligation"]]
    print("\n".join(log))
    other = [f for f in fails or [] if not f["goal"].startswith("dynmix(")]
    for f in fails or []:
        print("STILL FAILS:" if f in other else "KNOWN-FINDING input (known_findings.json, C06):", f["goal"], f["got"], f["expected"])
    return 1 if other else 0
