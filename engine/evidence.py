import json, os, time

ROOT = os.path.dirname(os.path.dirname(os.path.abspath(__file__)))


def write(pid, tier, seed, level, coverage, assumptions, wall_s, violations):
    evdir = os.environ.get("VERIF_EVIDENCE_DIR") or os.path.join(ROOT, "evidence")
    os.makedirs(evdir, exist_ok=True)
    ev = {
        "property_id": pid, "tier": tier, "seed": int(seed), "level": level,
        "coverage": coverage, "assumptions": assumptions, "wall_s": round(wall_s, 2), "violations": int(violations),
    }
    p = os.path.join(evdir, pid + ".json")
    tmp = p + ".tmp"
    with open(tmp, "w") as f:
        json.dump(ev, f, indent=1)
    os.replace(tmp, p)
    return p
