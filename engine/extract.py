"""Engine V front end: cut named items out of /repo's current sources, apply the
documented rewrite rules (DESIGN.md 2.3), splice the contracts kept under
/verif/contracts/<unit>/, and emit one Verus file per unit together with a line
table that maps every emitted line back to (function, obligation kind).

Everything here is mechanical and keyed by function name / loop ordinal /
literal anchor text. If an anchor is missing the extractor raises LostAnchor and
the driver exits 2 (UNDECIDED), never 1.
"""
import hashlib, os, re, difflib
from rustlex import (lex, text, is_sig, next_sig, prev_sig, match_close, find_fns,
                     find_blocks, find_macro, Tok, line_of, OPEN)


class LostAnchor(Exception):
    pass


TOLERANT_HINTS = False      # set by run_verus.run(tolerant=True)
DROPPED_HINTS = []


def sig_idx(toks):
    return [i for i, t in enumerate(toks) if is_sig(t)]


def relex(s):
    return lex(s)


# ---------------------------------------------------------------- locating

def locate(src_toks, spec):
    """spec: dict with fn, optional impl (regex on impl header), optional
    parent_fn. Returns Item."""
    lo, hi = 0, len(src_toks)
    if spec.get("block"):
        blocks = find_blocks(src_toks, spec["block"], spec["header"])
        if len(blocks) != 1:
            raise LostAnchor("%s header /%s/ matched %d blocks" % (spec["block"], spec["header"], len(blocks)))
        return blocks[0]
    if spec.get("within"):
        kw, hdr = spec["within"]
        blocks = find_blocks(src_toks, kw, hdr)
        if len(blocks) != 1:
            raise LostAnchor("%s header /%s/ matched %d blocks" % (kw, hdr, len(blocks)))
        lo, hi = blocks[0].body_open, blocks[0].body_close
    if spec.get("impl"):
        blocks = find_blocks(src_toks, "impl", spec["impl"])
        if len(blocks) != 1:
            raise LostAnchor("impl header /%s/ matched %d blocks" % (spec["impl"], len(blocks)))
        lo, hi = blocks[0].body_open, blocks[0].body_close
    if spec.get("parent_fn"):
        ps = [p for p in find_fns(src_toks, spec["parent_fn"], lo, hi)]
        if len(ps) != 1:
            raise LostAnchor("parent fn %s matched %d items" % (spec["parent_fn"], len(ps)))
        lo, hi = ps[0].body_open, ps[0].body_close
    items = find_fns(src_toks, spec["fn"], lo, hi)
    if not spec.get("impl") and not spec.get("parent_fn"):
        # top-level request: prefer items at brace depth 0
        def depth_at(idx):
            d = 0
            for t in src_toks[:idx]:
                if t.kind == "p":
                    if t.text == "{":
                        d += 1
                    elif t.text == "}":
                        d -= 1
            return d
        top = [it for it in items if depth_at(it.head_kw) == 0]
        if top:
            items = top
    if spec.get("nth") is not None:
        items = items[spec["nth"]:spec["nth"] + 1]
    if len(items) != 1:
        raise LostAnchor("fn %s matched %d items (impl=%s parent=%s)" % (
            spec["fn"], len(items), spec.get("impl"), spec.get("parent_fn")))
    return items[0]


# ---------------------------------------------------------------- rewrites
# Each rewrite takes and returns a token list (of one item) and a counter dict.

def _count(counts, rule, n=1):
    if n:
        counts[rule] = counts.get(rule, 0) + n


def rw_strip_head(toks, counts):
    """R2: drop visibility and #[inline]/#[allow]/#[cfg_attr]/#[must_use] attributes and doc comments in
    front of the `fn` keyword."""
    fn_i = next(i for i, t in enumerate(toks) if t.kind == "id" and t.text == "fn")
    head = toks[:fn_i]
    keep = []
    i = 0
    n = 0
    while i < len(head):
        t = head[i]
        if t.kind == "p" and t.text == "#":
            j = next_sig(head, i + 1)
            k = match_close(head, j)
            attr = text(head[j:k + 1])
            if re.match(r"\[\s*(inline|allow|must_use|cfg_attr|doc|track_caller|cold)", attr):
                i = k + 1; n += 1; continue
            raise LostAnchor("unexpected attribute %s" % attr)
        if t.kind == "id" and t.text == "pub":
            j = next_sig(head, i + 1)
            if j < len(head) and head[j].text == "(":
                i = match_close(head, j) + 1
            else:
                i += 1
            n += 1; continue
        if t.kind == "lc" and t.text.startswith("///"):
            i += 1; continue
        keep.append(t); i += 1
    _count(counts, "R2", n)
    # normalise leading whitespace
    while keep and keep[0].kind == "ws":
        keep.pop(0)
    return keep + toks[fn_i:]


def rw_strip_type_head(toks, counts):
    """R2 for type items: drop attributes and visibility in front of `enum`/`struct`."""
    kw = next(i for i, t in enumerate(toks) if t.kind == "id" and t.text in ("enum", "struct"))
    _count(counts, "R2", 1 if any(is_sig(t) for t in toks[:kw]) else 0)
    return [Tok("id", "pub", 0), Tok("ws", " ", 0)] + toks[kw:]


def split_signature(toks):
    """returns (fn_kw_idx, params_open, params_close, body_open)"""
    fn_i = next(i for i, t in enumerate(toks) if t.kind == "id" and t.text == "fn")
    i = fn_i
    while not (toks[i].kind == "p" and toks[i].text == "("):
        if toks[i].kind == "p" and toks[i].text == "<":
            # skip generics
            d = 0
            while True:
                if toks[i].kind == "p" and toks[i].text == "<":
                    d += 1
                elif toks[i].kind == "p" and toks[i].text == ">" and toks[i - 1].text != "-":
                    d -= 1
                    if d == 0:
                        break
                i += 1
        i += 1
    po = i
    pc = match_close(toks, po)
    k = pc + 1
    depth = 0
    while True:
        tk = toks[k]
        if tk.kind == "p":
            if tk.text in "([":
                depth += 1
            elif tk.text in ")]":
                depth -= 1
            elif tk.text == "{" and depth == 0:
                break
        k += 1
    return fn_i, po, pc, k


def rw_name_return(toks, counts, rname="r"):
    """R1: `-> T` becomes `-> (r: T)`."""
    fn_i, po, pc, bo = split_signature(toks)
    # find '->' between pc and bo
    i = pc + 1
    arrow = None
    while i < bo:
        if toks[i].kind == "p" and toks[i].text == "-" and toks[i + 1].kind == "p" and toks[i + 1].text == ">":
            arrow = i; break
        i += 1
    if arrow is None:
        return toks
    # type extends to `where` at depth 0 or bo
    j = arrow + 2
    end = bo
    d = 0
    while j < bo:
        t = toks[j]
        if t.kind == "p" and t.text in "(<[":
            d += 1
        elif t.kind == "p" and t.text in ")>]":
            d -= 1
        elif t.kind == "id" and t.text == "where" and d == 0:
            end = j; break
        j += 1
    ty = toks[arrow + 2:end]
    # trim ws
    s = text(ty).strip()
    new = [Tok("p", "-", 0), Tok("p", ">", 0), Tok("ws", " ", 0)] + relex("(%s: %s)" % (rname, s)) + [Tok("ws", "\n", 0)]
    _count(counts, "R1")
    return toks[:arrow] + new + toks[end:]


def _split_args(toks):
    """toks: the tokens strictly inside a bracket pair; split at top-level commas."""
    args, cur, d = [], [], 0
    for t in toks:
        if t.kind == "p" and t.text in OPEN:
            d += 1
        elif t.kind == "p" and t.text in ")]}":
            d -= 1
        if t.kind == "p" and t.text == "," and d == 0:
            args.append(cur); cur = []
        else:
            cur.append(t)
    if any(is_sig(t) for t in cur):
        args.append(cur)
    return args


def rw_macro_to_fn(toks, counts, name, fn_name, rule, drop_args=()):
    """`name!(a, b)` -> `fn_name(a, b)` (optionally dropping some argument positions)."""
    out = []
    i = 0
    n = 0
    while i < len(toks):
        t = toks[i]
        if t.kind == "id" and t.text == name:
            j = next_sig(toks, i + 1)
            if j < len(toks) and toks[j].kind == "p" and toks[j].text == "!":
                k = next_sig(toks, j + 1)
                e = match_close(toks, k)
                args = _split_args(toks[k + 1:e])
                args = [a for idx, a in enumerate(args) if idx not in drop_args]
                inner = []
                for idx, a in enumerate(args):
                    if idx:
                        inner.append(Tok("p", ",", 0))
                    inner += a
                inner = rw_macro_to_fn(inner, counts, name, fn_name, rule, drop_args)
                out += [Tok("id", fn_name, 0), Tok("p", "(", 0)] + inner + [Tok("p", ")", 0)]
                i = e + 1
                n += 1
                continue
        out.append(t); i += 1
    _count(counts, rule, n)
    return out


def rw_expand_macro(toks, counts, name, macro_src_toks, rule):
    """Expand `name!(args)` with the single-arm macro_rules definition found in
    the real source (textual substitution of $params)."""
    m = find_macro(macro_src_toks, name)
    if m is None:
        raise LostAnchor("macro_rules! %s not found" % name)
    body = macro_src_toks[m.body_open + 1:m.body_close]
    # single arm: (pattern) => { expansion } ;
    si = sig_idx(body)
    p_open = si[0]
    p_close = match_close(body, p_open)
    j = next_sig(body, p_close + 1)
    if not (body[j].text == "=" and body[j + 1].text == ">"):
        raise LostAnchor("macro %s: unexpected shape" % name)
    e_open = next_sig(body, j + 2)
    e_close = match_close(body, e_open)
    rest = [t for t in body[e_close + 1:] if is_sig(t) and t.text != ";"]
    if rest:
        raise LostAnchor("macro %s has more than one arm" % name)
    params = []
    pt = body[p_open + 1:p_close]
    k = 0
    while k < len(pt):
        if pt[k].kind == "p" and pt[k].text == "$":
            params.append(pt[k + 1].text)
        k += 1
    expansion = body[e_open + 1:e_close]
    out = []
    i = 0
    n = 0
    while i < len(toks):
        t = toks[i]
        if t.kind == "id" and t.text == name:
            j = next_sig(toks, i + 1)
            if j < len(toks) and toks[j].kind == "p" and toks[j].text == "!":
                k = next_sig(toks, j + 1)
                e = match_close(toks, k)
                args = _split_args(toks[k + 1:e])
                if len(args) != len(params):
                    raise LostAnchor("macro %s: arity mismatch" % name)
                amap = {p: [x for x in a] for p, a in zip(params, args)}
                exp = []
                q = 0
                while q < len(expansion):
                    if expansion[q].kind == "p" and expansion[q].text == "$" and expansion[q + 1].text in amap:
                        a = amap[expansion[q + 1].text]
                        # strip outer ws
                        a2 = list(a)
                        while a2 and a2[0].kind == "ws":
                            a2.pop(0)
                        while a2 and a2[-1].kind == "ws":
                            a2.pop()
                        simple = len([x for x in a2 if is_sig(x)]) == 1
                        exp += a2 if simple else ([Tok("p", "(", 0)] + a2 + [Tok("p", ")", 0)])
                        q += 2
                    else:
                        exp.append(expansion[q]); q += 1
                while exp and exp[0].kind == "ws":
                    exp.pop(0)
                while exp and exp[-1].kind == "ws":
                    exp.pop()
                out += [Tok("p", "(", 0)] + exp + [Tok("p", ")", 0)]
                i = e + 1
                n += 1
                continue
        out.append(t); i += 1
    _count(counts, rule, n)
    return relex(text(out))


def rw_unwrap_or_else(toks, counts):
    """R11b: `X.unwrap_or_else(|p| E)` (no preceding .map) -> `match X { Ok(v__) => v__, Err(p) => E }`;
    X is the maximal postfix chain to the left. Only used on Result receivers (listed per item)."""
    n = 0
    while True:
        si = sig_idx(toks)
        hit = None
        for a in range(len(si) - 5):
            i = si[a]
            if toks[i].text == "." and toks[si[a + 1]].text == "unwrap_or_else" and toks[si[a + 2]].text == "(":
                uo = si[a + 2]
                uc = match_close(toks, uo)
                cl = [x for x in range(uo + 1, uc) if is_sig(toks[x])]
                if not (toks[cl[0]].text == "|" and toks[cl[2]].text == "|"):
                    continue
                pname = toks[cl[1]].text
                E = toks[cl[2] + 1:uc]
                r = prev_sig(toks, i - 1)
                start = None
                while r >= 0:
                    t = toks[r]
                    if t.kind == "p" and t.text in ")]":
                        d = 0
                        k = r
                        while True:
                            if toks[k].kind == "p" and toks[k].text in ")]":
                                d += 1
                            elif toks[k].kind == "p" and toks[k].text in "([":
                                d -= 1
                                if d == 0:
                                    break
                            k -= 1
                        start = k
                        r = prev_sig(toks, k - 1)
                        continue
                    if t.kind == "id" or (t.kind == "p" and t.text in ":.") or t.kind == "num":
                        if t.kind == "id" and t.text in ("return", "match", "if", "in", "let", "else"):
                            break
                        start = r
                        r = prev_sig(toks, r - 1)
                        continue
                    break
                if start is None:
                    continue
                hit = (start, i, pname, E, uc)
                break
        if not hit:
            break
        start, r_end, pname, E, uc = hit
        X = toks[start:r_end]
        new = relex("match ") + X + relex(" { Ok(v__) => v__, Err(%s) => " % pname) + E + relex(" }")
        toks = relex(text(toks[:start] + new + toks[uc + 1:]))
        n += 1
    _count(counts, "R11", n)
    return toks


def rw_map_ctor_unwrap_or_else(toks, counts):
    """R11: `X.map(Path::Ctor).unwrap_or_else(|_| E)` -> `match X { Ok(v__) => Path::Ctor(v__), Err(_) => E }`
    The receiver X is the maximal postfix chain to the left."""
    n = 0
    while True:
        si = sig_idx(toks)
        hit = None
        for a in range(len(si) - 8):
            i = si[a]
            if toks[i].text == "." and toks[si[a + 1]].text == "map" and toks[si[a + 2]].text == "(":
                mo = si[a + 2]
                mc = match_close(toks, mo)
                inner = [t for t in toks[mo + 1:mc] if is_sig(t)]
                if not inner or any(t.kind not in ("id", "p") or (t.kind == "p" and t.text not in ":<>$") for t in inner):
                    continue
                if not inner[-1].text[:1].isupper():
                    continue
                b = next_sig(toks, mc + 1)
                if toks[b].text != ".":
                    continue
                c = next_sig(toks, b + 1)
                if toks[c].text != "unwrap_or_else":
                    continue
                uo = next_sig(toks, c + 1)
                uc = match_close(toks, uo)
                cl = [x for x in range(uo + 1, uc) if is_sig(toks[x])]
                # closure |_| E   or |_ident| E
                if not (toks[cl[0]].text == "|" and toks[cl[2]].text == "|" and toks[cl[1]].text.startswith("_")):
                    continue
                E = toks[cl[2] + 1:uc]
                # receiver: walk left over a postfix chain
                r_end = i
                r = prev_sig(toks, i - 1)
                start = None
                while r >= 0:
                    t = toks[r]
                    if t.kind == "p" and t.text in ")]":
                        d = 0
                        k = r
                        while True:
                            if toks[k].kind == "p" and toks[k].text in ")]":
                                d += 1
                            elif toks[k].kind == "p" and toks[k].text in "([":
                                d -= 1
                                if d == 0:
                                    break
                            k -= 1
                        start = k
                        r = prev_sig(toks, k - 1)
                        continue
                    if t.kind == "id" or (t.kind == "p" and t.text in ":.") or t.kind == "num":
                        if t.kind == "id" and t.text in ("return", "match", "if", "in", "let", "else"):
                            break
                        start = r
                        r = prev_sig(toks, r - 1)
                        continue
                    break
                if start is None:
                    continue
                hit = (start, r_end, inner, E, uc)
                break
        if not hit:
            break
        start, r_end, inner, E, uc = hit
        X = toks[start:r_end]
        new = relex("match ") + X + relex(" { Ok(v__) => ") + inner + relex("(v__), Err(_) => ") + E + relex(" }")
        toks = toks[:start] + new + toks[uc + 1:]
        n += 1
    _count(counts, "R11", n)
    return toks


_BINOPS = {"+": "ref_add", "-": "ref_sub", "*": "ref_mul", "/": "ref_div", "%": "ref_rem",
           "&": "ref_bitand", "|": "ref_bitor", "^": "ref_bitxor", "<<": "ref_shl", ">>": "ref_shr"}


def rw_ref_lhs_operator(toks, counts):
    """R9: `&*x OP rhs` / `&x OP rhs` / `!&*x` where the `&` starts an expression:
    -> `(&*x).ref_OP(rhs)` / `(&*x).ref_not()`. rhs extends to the next `,` `)` `;` at depth 0."""
    n = 0
    changed = True
    while changed:
        changed = False
        si = sig_idx(toks)
        for a in range(len(si)):
            i = si[a]
            t = toks[i]
            if not (t.kind == "p" and t.text == "&"):
                continue
            p = toks[si[a - 1]] if a > 0 else None
            # expression start?  previous token must not be an operand end
            if p is not None and (p.kind in ("id", "num", "str", "chr") and p.text not in ("return", "in", "else", "match", "if") or (p.kind == "p" and p.text in ")]}&")):
                continue
            # unary not in front:  ! & * x
            b = a + 1
            if b < len(si) and toks[si[b]].text == "mut":
                continue
            deref = False
            if b < len(si) and toks[si[b]].kind == "p" and toks[si[b]].text == "*":
                deref = True; b += 1
            if b >= len(si) or toks[si[b]].kind != "id":
                continue
            # operand: ident(.ident)*   (no calls)
            e = b
            while e + 2 < len(si) and toks[si[e + 1]].text == "." and toks[si[e + 2]].kind in ("id", "num") and not (e + 3 < len(si) and toks[si[e + 3]].text == "("):
                e += 2
            if e + 1 >= len(si):
                continue
            o = toks[si[e + 1]]
            op = None
            oplen = 1
            if o.kind == "p" and o.text in "+-*/%^":
                op = o.text
            elif o.kind == "p" and o.text in "&|":
                # not && or ||
                nx = toks[si[e + 2]]
                if nx.kind == "p" and nx.text == o.text and nx.pos == o.pos + 1 and o.pos != 0:
                    continue
                op = o.text
                # `& &*n2`: fine
            elif o.kind == "p" and o.text in "<>":
                nx = toks[si[e + 2]]
                if nx.kind == "p" and nx.text == o.text and si[e + 2] == si[e + 1] + 1:
                    op = o.text * 2; oplen = 2
            if op is None:
                continue
            # compound assignment or comparison? skip
            after = toks[si[e + 1 + oplen]]
            if after.kind == "p" and after.text == "=" and si[e + 1 + oplen] == si[e + oplen] + 1:
                continue
            # rhs extent
            r0 = si[e + 1 + oplen]
            k = r0
            d = 0
            while k < len(toks):
                tk = toks[k]
                if tk.kind == "p":
                    if tk.text in OPEN:
                        d += 1
                    elif tk.text in ")]}":
                        if d == 0:
                            break
                        d -= 1
                    elif tk.text in ",;" and d == 0:
                        break
                k += 1
            rhs = toks[r0:k]
            while rhs and rhs[-1].kind == "ws":
                rhs.pop()
            lhs = toks[i:si[e] + 1]
            new = [Tok("p", "(", 0)] + lhs + relex(").%s(" % _BINOPS[op]) + rhs + [Tok("p", ")", 0)]
            toks = toks[:i] + new + toks[r0 + len(rhs):]
            toks = relex(text(toks))
            n += 1
            changed = True
            break
    # unary: !&*x
    si = sig_idx(toks)
    out = None
    for a in range(len(si) - 3):
        if toks[si[a]].text == "!" and toks[si[a + 1]].text == "&" and toks[si[a + 2]].text == "*" and toks[si[a + 3]].kind == "id" \
                and not (toks[si[a + 4]].text in ".(" if a + 4 < len(si) else False):
            i, e = si[a], si[a + 3]
            new = relex("(&*%s).ref_not()" % toks[e].text)
            toks = toks[:i] + new + toks[e + 1:]
            _count(counts, "R9", n + 1)
            return rw_ref_lhs_operator(relex(text(toks)), counts)
    _count(counts, "R9", n)
    return toks


def rw_stub_gen(toks, counts):
    """R4: `let stub_gen = [move] || EXPR;`  ->  `let stub_gen = StubGen;`"""
    n = 0
    while True:
        si = sig_idx(toks)
        hit = None
        for a in range(len(si) - 4):
            if toks[si[a]].text == "let" and toks[si[a + 1]].text == "stub_gen" and toks[si[a + 2]].text == "=":
                b = a + 3
                if toks[si[b]].text == "move":
                    b += 1
                if toks[si[b]].text == "|" and toks[si[b + 1]].text == "|":
                    # closure body: to the `;` at depth 0
                    k = si[b + 2]
                    d = 0
                    while True:
                        tk = toks[k]
                        if tk.kind == "p":
                            if tk.text in OPEN:
                                d += 1
                            elif tk.text in ")]}":
                                d -= 1
                            elif tk.text == ";" and d == 0:
                                break
                        k += 1
                    hit = (si[a + 2] + 1, k)
                    break
        if not hit:
            break
        s, e = hit
        toks = toks[:s] + relex(" StubGen") + toks[e:]
        n += 1
    _count(counts, "R4", n)
    return toks


def rw_float_neg(toks, counts, names):
    """R10: unary minus applied to an f64-typed identifier in `names` -> f64_neg(x)."""
    n = 0
    si = sig_idx(toks)
    out = list(toks)
    for a in range(len(si) - 1, 0, -1):
        i = si[a]
        if toks[i].kind == "id" and toks[i].text in names and toks[si[a - 1]].text == "-":
            p = toks[si[a - 2]] if a >= 2 else None
            if p is not None and (p.kind in ("id", "num") and p.text not in ("return",) or (p.kind == "p" and p.text in ")]")):
                continue
            nxt = toks[si[a + 1]] if a + 1 < len(si) else None
            if nxt is not None and nxt.text in ".(":
                continue
            out = out[:si[a - 1]] + relex("f64_neg(%s)" % toks[i].text) + out[i + 1:]
            n += 1
    _count(counts, "R10", n)
    return relex(text(out))


def rw_rename_ident(toks, counts, old, new, rule="R13"):
    n = 0
    out = []
    for t in toks:
        if t.kind == "id" and t.text == old:
            out.append(Tok("id", new, t.pos)); n += 1
        else:
            out.append(t)
    _count(counts, rule, n)
    return out


def rw_replace_text(toks, counts, old, new, rule, required=True):
    """Literal, whitespace-normalised token-sequence replacement (old/new are
    source snippets). Used only for the documented fixed-table rewrites."""
    o = [t for t in lex(old) if is_sig(t)]
    si = sig_idx(toks)
    n = 0
    a = 0
    res = list(toks)
    hits = []
    while a <= len(si) - len(o):
        if all(toks[si[a + k]].text == o[k].text and toks[si[a + k]].kind == o[k].kind for k in range(len(o))):
            hits.append((si[a], si[a + len(o) - 1]))
            a += len(o)
        else:
            a += 1
    for s, e in reversed(hits):
        res = res[:s] + lex(new) + res[e + 1:]
        n += 1
    if required and n == 0:
        raise LostAnchor("rewrite %s: pattern `%s` not found" % (rule, old))
    _count(counts, rule, n)
    return relex(text(res))


def rw_ref_patterns(toks, counts):
    """R15: a reference pattern `&P` inside a match arm becomes `P` (default binding mode), and every
    identifier x bound inside P is re-bound by `let x = *x;` at the head of the arm body. `&P` can only
    bind Copy values by value, so the re-binding restores exactly the original types and values."""
    n = 0
    while True:
        si = sig_idx(toks)
        hit = None
        for a in range(len(si) - 1):
            i = si[a]
            if not (toks[i].text == "=" and toks[si[a + 1]].text == ">" and si[a + 1] == i + 1):
                continue
            # pattern start: walk back to the previous `,` `{` `}` at depth 0 (relative)
            d = 0
            b = a - 1
            while b >= 0:
                t = toks[si[b]]
                if t.kind == "p" and t.text in ")]":
                    d += 1
                elif t.kind == "p" and t.text in "([":
                    d -= 1
                elif t.kind == "p" and t.text in ",{}" and d == 0:
                    break
                elif t.kind == "p" and t.text == ">" and d == 0 and toks[si[b - 1]].text == "=":
                    break
                b -= 1
            pat = si[b + 1:a]
            # find `&` followed by an identifier inside the pattern (not in a guard)
            amp = None
            for x in range(len(pat) - 1):
                tk = toks[pat[x]]
                if tk.kind == "id" and tk.text == "if":
                    break
                if tk.kind == "p" and tk.text == "&" and toks[pat[x + 1]].kind == "id" and toks[pat[x + 1]].text not in ("mut",):
                    amp = x; break
            if amp is None:
                continue
            # extent of the sub-pattern: path [ (..) | {..} ]
            y = amp + 1
            while y + 2 < len(pat) and toks[pat[y + 1]].text == ":" and toks[pat[y + 2]].text == ":":
                y += 3
            end = pat[y]
            if y + 1 < len(pat) and toks[pat[y + 1]].text in "({":
                end = match_close(toks, pat[y + 1])
            binds = []
            sub = [k for k in range(pat[amp + 1], end + 1) if is_sig(toks[k])]
            for q, k in enumerate(sub):
                t = toks[k]
                if t.kind != "id" or not (t.text[0].islower() or t.text[0] == "_") or t.text in ("_", "ref", "mut"):
                    continue
                nxt = toks[sub[q + 1]].text if q + 1 < len(sub) else ""
                prv = toks[sub[q - 1]].text if q > 0 else ""
                if nxt in ("(", "{", "!") or (nxt == ":" and q + 2 < len(sub) and toks[sub[q + 2]].text == ":") or prv == ":":
                    continue
                binds.append(t.text)
            hit = (pat[amp], si[a + 1], binds)
            break
        if not hit:
            break
        amp_i, arrow_end, binds = hit
        body0 = next_sig(toks, arrow_end + 1)
        # an or-pattern binds the same names in each alternative: one re-binding per name
        head_txt = " ".join(t_.text for t_ in toks[body0:body0 + 120] if is_sig(t_))
        binds = [b for i_, b in enumerate(binds) if b not in binds[:i_] and ("let %s = * %s ;" % (b, b)) not in head_txt]
        lets = "".join("let %s = *%s; " % (b, b) for b in binds)
        if toks[body0].kind == "p" and toks[body0].text == "{":
            new_body_pre = toks[:body0 + 1] + relex(" " + lets)
            rest = toks[body0 + 1:]
            toks2 = new_body_pre + rest
        else:
            # expression arm: ends at `,` at depth 0 or at the closing brace of the match
            k = body0
            d = 0
            while k < len(toks):
                tk = toks[k]
                if tk.kind == "p":
                    if tk.text in OPEN:
                        d += 1
                    elif tk.text in ")]}":
                        if d == 0:
                            break
                        d -= 1
                    elif tk.text == "," and d == 0:
                        break
                k += 1
            expr = toks[body0:k]
            while expr and expr[-1].kind == "ws":
                expr.pop()
            toks2 = toks[:body0] + relex("{ " + lets) + expr + relex(" }") + toks[body0 + len(expr):]
        # drop the `&`
        toks2 = toks2[:amp_i] + toks2[amp_i + 1:]
        toks = relex(text(toks2))
        n += 1
    _count(counts, "R15", n)
    return toks


def rw_hoist_remove_nested(toks, counts, nested_name):
    """R12: remove a nested `fn nested_name` item from a body (it is emitted separately at top level)."""
    its = find_fns(toks, nested_name)
    # the outer function itself may share the name? no.
    its = [it for it in its if it.start > 0]
    if len(its) != 1:
        raise LostAnchor("nested fn %s not found for hoisting" % nested_name)
    it = its[0]
    _count(counts, "R12")
    return toks[:it.start] + toks[it.body_close + 1:]


# ---------------------------------------------------------------- contract spec files

class Spec:
    """contracts/<unit>/*.spec:

        //@ fn NAME                -> clauses spliced between signature and body
        //@ loop NAME N            -> clauses spliced at the head of the N-th loop (1-based, source order)
        //@ proof NAME before|after `literal source text`[ #K]  -> ghost block inserted before/after
                                       the K-th (default 1st) statement-level occurrence
        //@ raw                    -> verbatim Verus text (spec fns, lemmas) emitted after the prelude
        //@ sig NAME               -> replace parameter list/return naming hints: `ret NAME`
    """
    def __init__(self):
        self.fn = {}
        self.loop = {}
        self.proof = []
        self.raw = []
        self.ret = {}
        self.closure = {}

    @staticmethod
    def load(paths):
        sp = Spec()
        for p in paths:
            cur = None
            buf = []
            def flush():
                if cur is None:
                    return
                body = "\n".join(buf).rstrip() + "\n"
                k = cur[0]
                if k == "fn":
                    sp.fn[cur[1]] = (body, p)
                elif k == "loop":
                    sp.loop[(cur[1], int(cur[2]))] = (body, p)
                elif k == "proof":
                    sp.proof.append((cur[1], cur[2], cur[3], cur[4], body, p))
                elif k == "raw":
                    sp.raw.append((body, p))
                elif k == "closure":
                    sp.closure[(cur[1], int(cur[2]))] = (cur[3], body, p)
            for line in open(p).read().split("\n"):
                if line.startswith("//@ "):
                    flush()
                    buf = []
                    parts = line[4:].strip()
                    if parts.startswith("fn "):
                        cur = ("fn", parts[3:].strip())
                    elif parts.startswith("loop "):
                        _, name, n = parts.split()
                        cur = ("loop", name, n)
                    elif parts.startswith("proof "):
                        m = re.match(r"proof (\S+) (before|after) `(.*)`(?: #(\d+))?$", parts)
                        if not m:
                            raise ValueError("bad proof header: " + line)
                        cur = ("proof", m.group(1), m.group(2), m.group(3), int(m.group(4) or 1))
                    elif parts.startswith("raw"):
                        cur = ("raw",)
                    elif parts.startswith("closure "):
                        m = re.match(r"closure (\S+) (\d+) (.*)$", parts)
                        cur = ("closure", m.group(1), m.group(2), m.group(3))
                    elif parts.startswith("ret "):
                        _, name, r = parts.split()
                        sp.ret[name] = r
                        cur = None
                    else:
                        raise ValueError("bad spec header: " + line)
                else:
                    buf.append(line)
            flush()
        return sp


def count_clauses(body):
    """number of top-level comma-separated clauses under requires/ensures/invariant/decreases keywords"""
    out = {"requires": 0, "ensures": 0, "invariant": 0, "decreases": 0, "invariant_except_break": 0, "recommends": 0}
    kw = None
    toks = [t for t in lex(body) if is_sig(t)]
    d = 0
    pending = False
    for t in toks:
        if t.kind == "id" and t.text in out and d == 0:
            if pending and kw:
                out[kw] += 1
            kw = t.text; pending = False; continue
        if t.kind == "p" and t.text in OPEN:
            d += 1
        elif t.kind == "p" and t.text in ")]}":
            d -= 1
        if t.kind == "p" and t.text == "," and d == 0:
            if pending and kw:
                out[kw] += 1
            pending = False
        else:
            pending = True
    if pending and kw:
        out[kw] += 1
    return out


def loops_in(toks, body_open, body_close):
    """indices (token idx of keyword, token idx of the loop body `{`) of while/loop/for
    statements inside a function body in source order, not descending into nested fn items."""
    out = []
    i = body_open + 1
    while i < body_close:
        t = toks[i]
        if t.kind == "id" and t.text == "fn":
            # skip nested fn
            k = i
            while not (toks[k].kind == "p" and toks[k].text == "{"):
                k += 1
            i = match_close(toks, k) + 1
            continue
        if t.kind == "id" and t.text in ("while", "loop", "for"):
            p = prev_sig(toks, i - 1)
            if t.text == "for" and toks[p].text in ("<", "impl"):
                i += 1; continue
            k = i + 1
            d = 0
            while True:
                tk = toks[k]
                if tk.kind == "p":
                    if tk.text in "([":
                        d += 1
                    elif tk.text in ")]":
                        d -= 1
                    elif tk.text == "{" and d == 0:
                        # `while let Some(x) = S { .. }` struct literal ambiguity is not present in scope
                        break
                k += 1
            out.append((i, k))
        i += 1
    return out


def closures_in(toks, body_open, body_close):
    """(index of opening `|`, index of closing `|`, first body token, end (exclusive)) of closure
    expressions in source order. A closure starts with `|` (or `||`) in expression-start position."""
    out = []
    si = [i for i in sig_idx(toks) if body_open < i < body_close]
    a = 0
    while a < len(si):
        i = si[a]
        t = toks[i]
        if t.kind == "p" and t.text == "|":
            p = toks[si[a - 1]] if a > 0 else None
            starts = p is None or (p.kind == "p" and p.text in "(,=") or (p.kind == "id" and p.text in ("move", "return"))
            if starts:
                # closing bar
                b = a + 1
                while toks[si[b]].text != "|":
                    b += 1
                c = si[b]
                body0 = si[b + 1]
                if toks[body0].text == "-" and toks[si[b + 2]].text == ">":
                    # explicit return type: the body is the following block
                    q = b + 3
                    while toks[si[q]].text != "{":
                        q += 1
                    body0 = si[q]
                if toks[body0].kind == "p" and toks[body0].text == "{":
                    end = match_close(toks, body0) + 1
                else:
                    k = body0
                    d = 0
                    while k < body_close:
                        tk = toks[k]
                        if tk.kind == "p":
                            if tk.text in OPEN:
                                d += 1
                            elif tk.text in ")]}":
                                if d == 0:
                                    break
                                d -= 1
                            elif tk.text in ",;" and d == 0:
                                break
                        k += 1
                    end = k
                out.append((i, c, body0, end))
                a = b + 1
                continue
        a += 1
    return out


def splice_closures(toks, name, spec, counts):
    """R16: the N-th closure of a function gets the typed parameter list, named return and
    requires/ensures clauses given in the spec (`//@ closure FN N (params) -> (ret)`); an expression
    body is wrapped in braces. Nothing executable changes."""
    todo = sorted([(n, hdr, body) for (fname, n), (hdr, body, p) in spec.closure.items() if fname == name], reverse=True)
    if not todo:
        return toks
    fn_i, po, pc, bo = split_signature(toks)
    cls = closures_in(toks, bo, match_close(toks, bo))
    for n, hdr, body in todo:
        if n < 1 or n > len(cls):
            raise LostAnchor("%s: closure #%d requested, function has %d closures" % (name, n, len(cls)))
        o, c, b0, end = cls[n - 1]
        m = re.match(r"\((.*)\)\s*->\s*\((.*)\)\s*$", hdr)
        if not m:
            raise ValueError("bad closure header: " + hdr)
        is_block = toks[b0].kind == "p" and toks[b0].text == "{"
        btoks = toks[b0:end]
        while btoks and btoks[-1].kind == "ws":
            btoks.pop()
        new = relex("|%s| -> (%s)\n" % (m.group(1), m.group(2))) + [Tok("bc", "/*@%s:closure%d{*/" % (name, n), 0), Tok("ws", "\n", 0), Tok("raw", body, 0), Tok("bc", "/*@}*/", 0), Tok("ws", "\n", 0)]
        new += btoks if is_block else (relex("{ ") + btoks + relex(" }"))
        toks = toks[:o] + new + toks[b0 + len(btoks):]
        _count(counts, "R16")
    return toks


def splice(toks, name, spec, counts):
    """insert fn contract, loop contracts and proof blocks. Returns (toks, marks)
    where marks is a list of (kind, label, text_offset_start, text_offset_end) computed later from sentinels."""
    toks = splice_closures(toks, name, spec, counts)
    fn_i, po, pc, bo = split_signature(toks)
    item_body_close = match_close(toks, bo)
    inserts = []  # (token index, text, label)
    if name in spec.fn:
        inserts.append((bo, spec.fn[name][0], "contract"))
    lps = loops_in(toks, bo, item_body_close)
    for (fname, n), (body, p) in spec.loop.items():
        if fname != name:
            continue
        if len(lps) == 0:
            # the function no longer has any loop: a loop contract has nothing to attach to and nothing
            # to establish; the function's own postconditions are still checked (no ordinal can shift)
            _count(counts, "loop-contract-dropped")
            continue
        if n < 1 or n > len(lps):
            raise LostAnchor("%s: loop #%d requested, function has %d loops" % (name, n, len(lps)))
        inserts.append((lps[n - 1][1], body, "loop%d" % n))
    for (fname, where, anchor, nth, body, p) in spec.proof:
        if fname != name:
            continue
        a = [t for t in lex(anchor) if is_sig(t)]
        si = [i for i in sig_idx(toks) if bo < i < item_body_close]
        hits = []
        for x in range(len(si) - len(a) + 1):
            if all(toks[si[x + k]].text == a[k].text for k in range(len(a))):
                hits.append((si[x], si[x + len(a) - 1]))
        if len(hits) < nth:
            if TOLERANT_HINTS:
                # second attempt of the driver: the hint is left out; a failure of this run is only TENTATIVE and becomes
                # a violation only if the replay exhibits a concrete failing input on the real code
                _count(counts, "hint-dropped")
                DROPPED_HINTS.append("%s: `%s` #%d" % (name, anchor, nth))
                continue
            raise LostAnchor("%s: proof anchor `%s` #%d not found (%d hits)" % (name, anchor, nth, len(hits)))
        s, e = hits[nth - 1]
        inserts.append((s if where == "before" else e + 1, body, "proof"))
    out = list(toks)
    for idx, body, label in sorted(inserts, key=lambda x: -x[0]):
        open_m = "/*@%s:%s{*/" % (name, label)
        close_m = "/*@}*/"
        ins = [Tok("ws", "\n", 0), Tok("bc", open_m, 0), Tok("ws", "\n", 0)] + [Tok("raw", body, 0)] + [Tok("bc", close_m, 0), Tok("ws", "\n", 0)]
        out = out[:idx] + ins + out[idx:]
    return out


# ---------------------------------------------------------------- unit assembly

def sha(s):
    return hashlib.sha256(s.encode()).hexdigest()


class Extracted:
    def __init__(self):
        self.items = []      # dicts: name, file, line_start, line_end, sha256, original, verified_text, diff
        self.counts = {}
        self.text = ""
        self.linemap = []    # (first_line, last_line, fn_name, label)
        self.probes = []
        self.skipped = []    # optional items that are no longer in the source


def apply_rewrites(toks, rules, counts, ctx):
    for r in rules:
        if isinstance(r, str):
            kind, args = r, ()
        else:
            kind, args = r[0], r[1:]
        if kind == "strip_head":
            toks = rw_strip_head(toks, counts)
        elif kind == "strip_type_head":
            toks = rw_strip_type_head(toks, counts)
        elif kind == "name_return":
            toks = rw_name_return(toks, counts, *(args or ("r",)))
        elif kind == "stub_gen":
            toks = rw_stub_gen(toks, counts)
        elif kind == "macro_fn":
            toks = rw_macro_to_fn(toks, counts, args[0], args[1], args[2], tuple(args[3]) if len(args) > 3 else ())
        elif kind == "expand_macro":
            toks = rw_expand_macro(toks, counts, args[0], ctx["macro_src"](args[1]), args[2])
        elif kind == "map_unwrap":
            toks = rw_map_ctor_unwrap_or_else(toks, counts)
        elif kind == "unwrap_or_else":
            toks = rw_unwrap_or_else(toks, counts)
        elif kind == "ref_ops":
            toks = rw_ref_lhs_operator(toks, counts)
        elif kind == "float_neg":
            toks = rw_float_neg(toks, counts, set(args[0]))
        elif kind == "rename":
            toks = rw_rename_ident(toks, counts, args[0], args[1], args[2] if len(args) > 2 else "R13")
        elif kind == "replace":
            toks = rw_replace_text(toks, counts, args[0], args[1], args[2], args[3] if len(args) > 3 else True)
        elif kind == "ref_patterns":
            toks = rw_ref_patterns(toks, counts)
        elif kind == "hoist_out":
            toks = rw_hoist_remove_nested(toks, counts, args[0])
        elif kind == "rename_fn":
            # R3: the item's own name (trait method -> inherent/free function)
            fn_i = next(i for i, t in enumerate(toks) if t.kind == "id" and t.text == "fn")
            j = next_sig(toks, fn_i + 1)
            toks = toks[:j] + [Tok("id", args[0], 0)] + toks[j + 1:]
            _count(counts, "R3")
        else:
            import rewrites2
            fnc = getattr(rewrites2, "rw_" + kind, None)
            if fnc is None:
                raise ValueError("unknown rewrite " + kind)
            toks = fnc(toks, counts, *args, ctx=ctx) if getattr(fnc, "needs_ctx", False) else fnc(toks, counts, *args)
        toks = relex(text(toks))
    return toks


def build_unit(repo, unit, spec, prelude_texts, probe=False):
    """unit: dict(name, items=[{fn, file, impl?, parent_fn?, emit_name?, rewrites:[...], wrap?}])"""
    ex = Extracted()
    src_cache = {}

    def src(path):
        if path not in src_cache:
            p = os.path.join(repo, path)
            if not os.path.exists(p):
                raise LostAnchor("source file %s missing" % path)
            s = open(p, encoding="utf-8").read()
            src_cache[path] = (s, lex(s))
        return src_cache[path]

    ctx = {"macro_src": lambda path: src(path)[1]}
    parts = []
    parts.append("// GENERATED on every run by /verif/engine/extract.py from /repo's working tree. Do not edit.\n")
    parts.append("#![allow(unused_imports, unused_variables, dead_code, unused_mut, unused_parens, non_snake_case, unreachable_code, unused_assignments, unused_braces)]\n")
    parts.append("use vstd::prelude::*;\nverus! {\n")
    parts.append("pub mod shim {\nuse vstd::prelude::*;\nuse super::*;\n")
    for pt in prelude_texts:
        parts.append(pt)
        parts.append("\n")
    parts.append("} // mod shim\nuse shim::*;\n")
    for nm in unit.get("explicit_use", []):
        parts.append("use shim::%s;\n" % nm)   # explicit import wins over vstd's glob-exported names
    if unit.get("broadcast_use"):
        parts.append("broadcast use {%s};\n" % ", ".join(unit["broadcast_use"]))
    for body, p in spec.raw:
        parts.append("// ---- from %s\n" % os.path.basename(p))
        parts.append(body)
        parts.append("\n")
    out = "".join(parts)
    for it in unit["items"]:
        s, toks = src(it["file"])
        try:
            item = locate(toks, it)
        except LostAnchor:
            # a helper marked optional may disappear (e.g. become unused and be deleted) without the unit
            # losing its other obligations; its own contract is dropped with it
            if it.get("optional"):
                ex.skipped.append(it.get("emit_name") or it.get("fn"))
                spec.fn.pop(it.get("emit_name") or it.get("fn"), None)
                continue
            raise
        itoks = toks[item.start:item.body_close + 1]
        original = text(itoks)
        name = it.get("emit_name", it.get("fn") or it["header"])
        counts = {}
        rules = it.get("rewrites", [])
        itoks = relex(original)
        itoks = apply_rewrites(itoks, rules, counts, ctx)
        verified_plain = text(itoks)
        sp = itoks if it.get("block") else splice(itoks, name, spec, counts)
        # render, recording line ranges of the spliced blocks
        pre = it.get("wrap_pre", "")
        post = it.get("wrap_post", "")
        start_line = out.count("\n") + 1
        out += "// ---- %s  (%s:%d-%d)\n" % (name, it["file"], line_of(s, toks[item.start].pos), line_of(s, toks[item.body_close].pos))
        out += pre
        item_first = out.count("\n") + 1
        cur_label = None
        for t in sp:
            if t.kind == "bc" and t.text.startswith("/*@") and t.text.endswith("{*/"):
                cur_label = t.text[3:-3].split(":", 1)[1]
                blk_first = out.count("\n") + 2
                out += t.text
                continue
            if t.kind == "bc" and t.text == "/*@}*/":
                ex.linemap.append((blk_first, out.count("\n"), name, cur_label))
                cur_label = None
                out += t.text
                continue
            out += t.text
        out += "\n" + post + "\n"
        item_last = out.count("\n")
        ex.linemap.append((item_first, item_last, name, "body"))
        inherent = bool(pre) and re.match(r"impl\b", pre.lstrip()) is not None and " for " not in pre.split("{")[0]
        attrs_only = bool(pre) and all(l.strip().startswith("#[") or not l.strip() for l in pre.split("\n"))
        if probe and not it.get("block") and (not pre or inherent or attrs_only) and name in spec.fn:
            # reachability twin: same signature, same requires, `ensures false` -- must be refuted
            tw = "".join(t.text for t in sp)
            tw = re.sub(r"\bfn\s+%s\b" % re.escape(it["fn"] if "rename_fn" not in str(rules) else name), "fn %s__probe" % name, tw, count=1)
            m = re.search(r"/\*@%s:contract\{\*/(.*?)/\*@\}\*/" % re.escape(name), tw, re.S)
            if m:
                c = m.group(1)
                # the clause keyword, not the closure-specification method `f.ensures(..)`
                if re.search(r"(?<![.\w])ensures\b", c):
                    c2 = re.sub(r"(?<![.\w])ensures\b", "ensures false,", c, count=1)
                else:
                    dm = re.search(r"\bdecreases\b", c)
                    c2 = (c[:dm.start()] + " ensures false,\n" + c[dm.start():]) if dm else (c.rstrip().rstrip(",") + ",\n ensures false,\n")
                tw = tw[:m.start(1)] + c2 + tw[m.end(1):]
                first = out.count("\n") + 1
                out += "// ---- reachability probe for %s\n" % name + pre + tw + "\n" + post + "\n"
                ex.linemap.append((first, out.count("\n"), name + "__probe", "body"))
                ex.probes.append(name)
        for k, v in counts.items():
            ex.counts[k] = ex.counts.get(k, 0) + v
        diff = "".join(difflib.unified_diff(original.splitlines(True), verified_plain.splitlines(True),
                                            "repo:" + it["file"], "verified:" + name, n=0))
        ex.items.append({
            "name": name, "fn": it.get("fn"), "type_item": bool(it.get("block")), "file": it["file"],
            "line_start": line_of(s, toks[item.start].pos), "line_end": line_of(s, toks[item.body_close].pos),
            "sha256": sha(original), "rewrites": counts, "diff": diff,
            "has_contract": name in spec.fn, "emitted": text(sp),
        })
    out += "\n} // verus!\nfn main() {}\n"
    ex.text = out
    return ex


def map_line(ex, line):
    """(fn_name, label) for a line of the generated file; most specific block wins."""
    best = None
    for a, b, name, label in ex.linemap:
        if a <= line <= b:
            if best is None or (b - a) < (best[1] - best[0]):
                best = (a, b, name, label)
    if best is None:
        return (None, "prelude")
    return (best[2], best[3])
