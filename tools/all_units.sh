#!/bin/sh
# re-verify every Verus unit against /repo's working tree (run after editing anything under contracts/common or engine/)
cd /verif
for u in $(ls contracts | grep -v common); do
  [ -f contracts/$u/unit.py ] || continue
  printf "%s: " $u; python3 engine/run_verus.py $u 2>&1 | grep "^status"
done
