#!/bin/sh
# usage: tools/confirm_seeded.sh <ID>  -- run the agent's demo with and without its patch in its own worktree
id="$1"; w=/tmp/mut/$id
cd $w || exit 2
export CARGO_TARGET_DIR=$w/target CARGO_NET_OFFLINE=true
git diff --stat | tail -1
cargo build --offline --bin scryer-prolog 2>&1 | tail -1
echo "--- WITH patch:"; timeout 120 target/debug/scryer-prolog -f --no-add-history MUTATION/demo.pl 2>&1 | tail -6; echo "exit=$?"
git stash -q
cargo build --offline --bin scryer-prolog 2>&1 | tail -1
echo "--- WITHOUT patch:"; timeout 120 target/debug/scryer-prolog -f --no-add-history MUTATION/demo.pl 2>&1 | tail -4; echo "exit=$?"
git stash pop -q
grep -E "^test result" MUTATION/*.log 2>/dev/null | head -6
