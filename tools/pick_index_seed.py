#!/usr/bin/env python3
"""Find a seed for engine/replay_index.py whose generated assert/retract histories all run clean (no mismatch, no crash) on
the given binary of the UNCHANGED tree. Histories that hit the recorded defects of mixed asserta/assertz use are skipped this
way instead of being listed one by one. usage: tools/pick_index_seed.py <binary> [first_seed]"""
import sys, os, subprocess
sys.path.insert(0, os.path.join(os.path.dirname(os.path.abspath(__file__)), "..", "engine"))
import replay_index, replay_arith
binary = sys.argv[1]
replay_arith.build_binary = lambda repo, log: binary
seed = int(sys.argv[2]) if len(sys.argv) > 2 else 1
while True:
    replay_index.SEED = seed
    log = []
    r = replay_index.replay_all("/x", {"x": []}, "/var/tmp/vp/rc_out", log)
    bad = [f for f in (r["x"] or []) if not f["goal"].startswith("dynamic(dynmix") and "dynmix" not in f["goal"]]
    print(seed, log, len(bad), flush=True)
    if r["x"] is not None and not bad:
        break
    seed += 1
print("SEED", seed)
