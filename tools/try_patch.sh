#!/bin/sh
# usage: tools/try_patch.sh <property id> <patch file>   -- apply to /repo, run the quick check, always undo
id="$1"; patch="$2"
git -C /repo apply "$patch" || exit 3
cd /verif && ./check "$id"; rc=$?
git -C /repo checkout -- .
echo "check exit=$rc"
exit $rc
