#!/usr/bin/env python3
"""Regenerates /verif/MANIFEST.json from the tables below.

The manifest is a generated artefact so that it is valid at every commit: a
property appears under `checks` only once its unit files exist (see CLAIMED),
otherwise under `not_applicable` with the reason.
"""
import json, os, sys

ROOT = os.path.dirname(os.path.dirname(os.path.abspath(__file__)))

NA = {
 "C07": "Whole-compiler + whole-machine correctness (register allocation, environment trimming, cut barriers); no per-function contract carries it and whole-repository deductive proof is not tractable with Verus/Kani.",
 "C08": "Equivalence of three execution paths through compile.rs/loader.rs/builtins.pl; same obstacle as C07 plus Prolog-level dispatch code for which no deductive verifier exists here.",
 "C09": "History property over the global clock, birth/death stamps and choice-point state; the function-sized visibility test does not imply it without invariants over all of compile.rs.",
 "C10": "unify_internal is a worklist over an aliased mutable heap graph behind raw pointers; an MGU postcondition needs a heap-graph term model and separation reasoning outside what Verus/Kani can be given on this code.",
 "C11": "Kani 0.68 dies with an internal compiler error on every harness that reaches MachineState::new(); under Verus trail/bind/unwind_trail need rewrites that would make the verified text a model. Remainder is whole-machine history.",
 "C12": "catch/throw/setup_call_cleanup are Prolog code over whole-machine state; no Prolog verifier, no function-sized contract.",
 "C14": "sort/keysort are std sort_unstable_by/dedup_by/sort_by over C13's comparator (only std's own contract to assume); lists/ordsets/assoc/pairs are Prolog.",
 "C15": "Round trip through HCPrinter (2.2 kLoC) and the parser needs grammar-level reasoning over both, not function contracts; the self-contained quoting decision is C55.",
 "C16": "The lexer number path is a stream state machine inside Lexer<R> owning a MachineState; value computation is delegated to external crates (from_str_radix, dashu, lexical, ryu) that could only be assumed.",
 "C17": "Panic-freedom and resynchronisation of the whole lexer+parser+stream stack for all texts; Verus cannot reason about str contents, Kani cannot execute a Lexer (owns a MachineState: Kani ICE).",
 "C19": "Stream is an arena-allocated tagged union over files, sockets, TLS, pipes with interior mutability; histories of OS operations cannot be modelled by either verifier.",
 "C22": "atom_concat/3, sub_atom/5 are Prolog; the Rust halves are Machine methods mixing heap term construction and error building; no contract within reach.",
 "C23": "try_functor, copy_term, term_variables work on the aliased heap graph; same obstacle as C10.",
 "C24": "CycleDetectingIter is a pointer-reversal traversal whose invariant is a research-grade proof; termination is unverifiable in Kani.",
 "C25": "findall/bagof/setof are Prolog over the lifted heap; whole-machine.",
 "C26": "dif/freeze/when are Prolog libraries over attributed-variable hooks; histories.",
 "C27": "clpz.pl is 7.8 kLoC of Prolog; no deductive verifier for Prolog here.",
 "C28": "History property of QueryState over a booted Machine (Kani ICE on MachineState; far outside Verus extraction rules).",
 "C29": "toplevel.pl (Prolog) plus the printer.",
 "C30": "Fault-sequence property: needs allocator-failure injection at every site and whole-machine recovery; outside both verifiers' semantics.",
 "C31": "Schedule property over every instruction boundary of a running machine.",
 "C32": "Concurrency: Kani has no thread support; Verus would need its permission/atomic types threaded through atom_table.rs, raw_block.rs and the external arcu crate.",
 "C34": "Native stack depth is not a notion either verifier has.",
 "C35": "History property over loader.rs/compile.rs retraction records and the whole machine footprint.",
 "C36": "format.pl is Prolog.",
 "C37": "The Rust side forwards to external crates (ring, sha3, blake2, ripemd, base64) whose contracts could only be assumed; hex/option handling is Prolog (crypto.pl).",
 "C38": "cont.pl, tabling.pl are Prolog over continuation chunks of the whole stack.",
 "C39": "dcgs.pl is Prolog.",
 "C41": "json.pl is Prolog.",
 "C42": "Loader/compile/module-directory histories plus loader.pl (Prolog).",
 "C43": "op/3 validation is Prolog (builtins.pl); the Rust op_declaration is an IndexMap update on a Machine; histories.",
 "C44": "current_prolog_flag/2, set_prolog_flag/2 are Prolog clauses; histories.",
 "C45": "Spread over parser, read.rs and builtins.pl option parsing on a Machine.",
 "C46": "clpb.pl is Prolog.",
 "C47": "pio.pl (Prolog) over attributed variables and streams.",
 "C48": "The oracle is the operating system; histories.",
 "C49": "between.pl, lists.pl, iso_ext.pl are Prolog.",
 "C50": "Equivalence of two whole pipelines (C15/C17 machinery).",
 "C51": "csv.pl is Prolog.",
 "C52": "The range guarantee is rand::Rng::gen_range's own (external) contract; seeding/reproducibility is a history property of RNG state; random.pl is Prolog.",
 "C53": "ugraphs.pl is Prolog.",
 "C54": "reif.pl is Prolog.",
}

# Properties whose unit is planned but not built yet: listed as not applicable
# *for now* so that the manifest never names a command that does not exist.
PENDING = "unit designed in DESIGN.md section 3 but not built yet in this tree; not claimed until its check exists"

# id -> dict(level, text, note, technique, design_ref, thorough=bool)
CLAIMED = {}

def load_claimed():
    p = os.path.join(ROOT, "tools", "claimed.json")
    if os.path.exists(p):
        CLAIMED.update(json.load(open(p)))

def main():
    load_claimed()
    ids = [json.loads(l)["id"] for l in open(os.path.join(ROOT, "properties.jsonl"))]
    checks, na = [], []
    for i in ids:
        if i in CLAIMED:
            c = CLAIMED[i]
            checks.append({
                "property_id": i,
                "quick_cmd": f"./check {i} --tier quick",
                "thorough_cmd": f"./check {i} --tier thorough",
                "evidence_file": f"evidence/{i}.json",
                "replay_cmd_template": f"./check {i} --replay {{path}}",
                "engine": c.get("engine", "contracts"),
                "level_claimed": {"category": c["level"], "text": c["text"], "design_ref": c.get("design_ref", f"DESIGN.md section 3, {i}")},
                "level_note": c["note"],
                "technique": c["technique"],
            })
        else:
            na.append({"property_id": i, "reason": NA.get(i, PENDING)})
    m = {
        "version": 1,
        "setup_cmd": "./setup.sh",
        "hooks": {
            "guard": "cfg(kani)",
            "enable": "none in /repo: contracts and #[cfg(kani)] harness modules are injected add-only into a scratch copy of the working tree at run time (engine/inject.py) and diffed against /repo; cfg(kani) is set only by the Kani compiler",
            "baseline_off_cmd": "cd /repo && cargo test --workspace --no-fail-fast --offline",
            "source_commits": [],
            "add_only": True,
        },
        "engines": [
            {"name": "V", "path": "engine/extract.py + engine/run_verus.py", "serves_properties": sorted(k for k, v in CLAIMED.items() if "V" in v.get("engines", "V")), "kind_free_text": "Verus 0.2026.09.13 (Z3) on functions extracted mechanically from /repo's working tree on every run, contracts spliced from contracts/<unit>/"},
            {"name": "K", "path": "engine/inject.py + engine/run_kani.py", "serves_properties": sorted(k for k, v in CLAIMED.items() if "K" in v.get("engines", "")), "kind_free_text": "Kani 0.68 / CBMC 6.11 on the real crate, #[cfg(kani)] harness modules appended add-only to a scratch copy"},
        ],
        "checks": checks,
        "not_applicable": na,
        "notes": "Contract-based deductive verification only; see DESIGN.md. Exit codes of ./check: 0 held, 1 VIOLATION, 2 UNDECIDED (tool limit / lost anchor; never an alarm).",
    }
    json.dump(m, open(os.path.join(ROOT, "MANIFEST.json"), "w"), indent=1)
    print(f"MANIFEST.json: {len(checks)} checks, {len(na)} not_applicable")

if __name__ == "__main__":
    main()
