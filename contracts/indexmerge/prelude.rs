// ===== Shim prelude of unit indexmerge (TRUSTED). =====
// IndexMap is seen as a mathematical map, VecDeque as a sequence; clause skeletons, literals and heap
// cells are opaque values. What is verified is a well-formedness invariant of the indexing code.
use core::marker::PhantomData;

#[derive(Clone, Copy)] pub struct HeapCellValue { pub bits: u64 }
#[derive(Clone, Copy)] pub struct Atom { pub index: u64 }
#[derive(Clone, Copy)] pub struct Literal { pub bits: u64 }
pub type PredicateKey = (Atom, usize);
impl core::convert::From<Literal> for HeapCellValue { #[verifier::external_body] fn from(l: Literal) -> (r: HeapCellValue) { unimplemented!() } }
#[verifier::external_body] pub struct ClauseIndexInfo { _p: usize }
pub struct FxBuildHasher;
impl FxBuildHasher { pub fn default_hasher() -> FxBuildHasher { FxBuildHasher } }

#[verifier::external_body]
#[verifier::reject_recursive_types(K)]
#[verifier::reject_recursive_types(V)]
#[verifier::accept_recursive_types(S)]
pub struct IndexMap<K, V, S> { _p: PhantomData<(K, V, S)> }
impl<K, V, S> IndexMap<K, V, S> {
    pub uninterp spec fn view(&self) -> Map<K, V>;
    #[verifier::external_body]
    pub fn with_hasher(h: S) -> (r: Self) ensures r@ == Map::<K, V>::empty() { unimplemented!() }
    #[verifier::external_body]
    pub fn insert(&mut self, k: K, v: V) -> (r: Option<V>) ensures final(self)@ == old(self)@.insert(k, v) { unimplemented!() }
    #[verifier::external_body]
    pub fn swap_remove(&mut self, k: &K) -> (r: Option<V>) ensures final(self)@ == old(self)@.remove(*k) { unimplemented!() }
    #[verifier::external_body]
    pub fn is_empty(&self) -> (r: bool) ensures r == (self@.dom() =~= Set::<K>::empty()) { unimplemented!() }
    #[verifier::external_body]
    pub fn get(&self, k: &K) -> (r: Option<&V>)
        ensures match r { Some(v) => self@.contains_key(*k) && *v == self@[*k], None => !self@.contains_key(*k) } { unimplemented!() }
}
// Option<&IndexingCodePtr>::cloned()
pub trait CopiedPtr { fn copied_ptr(self) -> Option<IndexingCodePtr>; }
impl<'b> CopiedPtr for Option<&'b IndexingCodePtr> {
    #[verifier::external_body]
    fn copied_ptr(self) -> (r: Option<IndexingCodePtr>)
        ensures match self { Some(v) => r == Some(*v), None => r is None } { unimplemented!() }
}

#[verifier::external_body]
#[verifier::reject_recursive_types(T)]
pub struct VecDeque<T> { _p: PhantomData<T> }
impl<T> VecDeque<T> {
    pub uninterp spec fn view(&self) -> Seq<T>;
    #[verifier::external_body] pub fn push_back(&mut self, v: T) ensures final(self)@ == old(self)@.push(v) { unimplemented!() }
    #[verifier::external_body] pub fn push_front(&mut self, v: T) ensures final(self)@ == seq![v] + old(self)@ { unimplemented!() }
    #[verifier::external_body] pub fn make_contiguous(&mut self) -> (r: &mut [T]) { unimplemented!() }
    #[verifier::external_body] pub fn len(&self) -> (r: usize) ensures r == self@.len() { unimplemented!() }
    #[verifier::external_body] pub fn pop_back(&mut self) -> (r: Option<T>)
        ensures old(self)@.len() == 0 ==> r is None && final(self)@ == old(self)@,
                old(self)@.len() > 0 ==> r == Some(old(self)@.last()) && final(self)@ == old(self)@.drop_last() { unimplemented!() }
}
// `vec![..].into()` : Vec<T> -> VecDeque<T>
pub trait IntoDeque<T> { fn into_deque(self) -> VecDeque<T>; }
impl<T> IntoDeque<T> for Vec<T> { #[verifier::external_body] fn into_deque(self) -> (r: VecDeque<T>) ensures r@ == self@ { unimplemented!() } }

#[verifier::external_body] pub fn uncap_choice_seq_with_trust(prelude: &mut [IndexedChoiceInstruction]) { unimplemented!() }
#[verifier::external_body] pub fn uncap_choice_seq_with_try(prelude: &mut [IndexedChoiceInstruction]) { unimplemented!() }
// the skeleton search is outside the unit: any key (or none) may come back
#[verifier::external_body]
pub fn search_skeleton_for_first_key_type<'b>(skeleton: &'b [ClauseIndexInfo], retracted: &'b Option<Vec<ClauseIndexInfo>>,
    key_type: OptArgIndexKeyType, append_or_prepend: AppendOrPrepend) -> (r: Option<&'b OptArgIndexKey>) { unimplemented!() }
// unreachable!(): panics; nothing is written afterwards (R18)
#[verifier::external_body] pub fn unreachable_abort() -> ! { unimplemented!() }
#[verifier::external_body] pub fn debug_assert_shim(b: bool) { unimplemented!() }

pub assume_specification<T> [<[T]>::swap] (s: &mut [T], a: usize, b: usize)
    requires a < old(s)@.len(), b < old(s)@.len()
    ensures final(s)@ == old(s)@.update(a as int, old(s)@[b as int]).update(b as int, old(s)@[a as int]);

// the derives of the real types (stripped with the type heads, R2)
impl Clone for IndexingCodePtr { #[verifier::external_body] fn clone(&self) -> (r: Self) ensures r == *self { unimplemented!() } }
impl Copy for IndexingCodePtr {}
impl Clone for IndexedChoiceInstruction { #[verifier::external_body] fn clone(&self) -> (r: Self) ensures r == *self { unimplemented!() } }
impl Copy for IndexedChoiceInstruction {}
impl Clone for AppendOrPrepend { #[verifier::external_body] fn clone(&self) -> (r: Self) ensures r == *self { unimplemented!() } }
impl Copy for AppendOrPrepend {}
impl Clone for OptArgIndexKey { #[verifier::external_body] fn clone(&self) -> (r: Self) ensures r == *self { unimplemented!() } }
impl Copy for OptArgIndexKey {}
impl Clone for OptArgIndexKeyType { #[verifier::external_body] fn clone(&self) -> (r: Self) ensures r == *self { unimplemented!() } }
impl Copy for OptArgIndexKeyType {}

// the Indexer impls' `remove_instruction_with_offset` (retain/position over the deque): the choice sequence
// changes, nothing else
pub struct StaticCodeIndices;
pub struct DynamicCodeIndices;
impl StaticCodeIndices { #[verifier::external_body] pub fn remove_instruction_with_offset(code: &mut VecDeque<IndexedChoiceInstruction>, offset: usize) { unimplemented!() } }
impl DynamicCodeIndices { #[verifier::external_body] pub fn remove_instruction_with_offset(code: &mut VecDeque<usize>, offset: usize) { unimplemented!() } }

// `once(&constant).chain(overlapping.iter()).map(|l| HeapCellValue::from(*l))`: the key of the constant, then the key
// of its alternative encoding if there is one
#[verifier::external_body]
pub fn literal_keys(constant: Literal, overlapping: Option<Literal>) -> (r: Vec<HeapCellValue>)
    ensures r@.len() == (if overlapping is Some { 2int } else { 1int }) { unimplemented!() }
