F_I = "src/indexing.rs"
F_INS = "src/instructions.rs"
F_F = "src/forms.rs"

STD = ["strip_head", "name_return",
       ("macro_fn", "unreachable", "unreachable_abort", "R18"),
       ("macro_fn", "debug_assert", "debug_assert_shim", "R18", [1]),
       ("rename", "into", "into_deque", "R13"),
       ("replace", ".cloned()", ".copied_ptr()", "R6", False),
       ("replace", "IndexMap::with_hasher(FxBuildHasher::default())", "IndexMap::with_hasher(FxBuildHasher::default_hasher())", "R7", False)]

def m(name, extra=()):
    return {"fn": name, "impl": r"impl < 'a > IndexingCodeMergingPtr < 'a >", "file": F_I, "emit_name": "Merging_" + name,
            "rewrites": STD + list(extra),
            "wrap_pre": "impl<'a> IndexingCodeMergingPtr<'a> {\n#[verifier::exec_allows_no_decreases_clause]\n", "wrap_post": "}\n"}

UNIT = {
    "name": "indexmerge",
    "prelude": ["prelude.rs"],
    "specs": ["indexmerge.spec"],
    "items": [
        {"block": "enum", "header": r"enum IndexingCodePtr", "file": F_INS, "rewrites": ["strip_type_head"]},
        {"block": "enum", "header": r"enum IndexedChoiceInstruction", "file": F_INS, "rewrites": ["strip_type_head"]},
        {"block": "enum", "header": r"enum IndexingInstruction", "file": F_INS, "rewrites": ["strip_type_head"]},
        {"block": "enum", "header": r"enum IndexingLine", "file": F_INS, "rewrites": ["strip_type_head"]},
        {"block": "enum", "header": r"enum AppendOrPrepend", "file": F_F, "rewrites": ["strip_type_head"]},
        {"block": "enum", "header": r"enum OptArgIndexKey", "file": F_F, "rewrites": ["strip_type_head"]},
        {"block": "enum", "header": r"enum OptArgIndexKeyType", "file": F_I, "rewrites": ["strip_type_head"]},
        {"block": "struct", "header": r"struct IndexingCodeMergingPtr < 'a >", "file": F_I, "rewrites": ["strip_type_head"]},
        {"fn": "is_append", "impl": r"impl AppendOrPrepend", "file": F_F, "emit_name": "AppendOrPrepend_is_append", "rewrites": ["strip_head", "name_return"],
         "wrap_pre": "impl AppendOrPrepend {\n", "wrap_post": "}\n"},
        {"fn": "is_external", "impl": r"impl IndexingCodePtr", "file": F_INS, "emit_name": "IndexingCodePtr_is_external", "rewrites": ["strip_head", "name_return"],
         "wrap_pre": "impl IndexingCodePtr {\n", "wrap_post": "}\n"},
        m("internalize_constant"),
        m("add_static_indexed_choice_for_constant"),
        m("add_dynamic_indexed_choice_for_constant"),
        m("extend_indexed_choice", extra=["merge_guarded_twin"]),
        m("index_overlapping_constant", extra=["split_or_guard"]),
        m("index_constant", extra=["split_or_guard"]),
        m("internalize_structure"),
        m("add_static_indexed_choice_for_structure"),
        m("add_dynamic_indexed_choice_for_structure"),
        m("index_structure", extra=["split_or_guard"]),
        m("index_list"),
        m("new"),
        # ---- retract side
        {"fn": "offset", "impl": r"impl IndexedChoiceInstruction", "file": F_INS, "emit_name": "IndexedChoiceInstruction_offset", "rewrites": ["strip_head", "name_return"],
         "wrap_pre": "impl IndexedChoiceInstruction {\n", "wrap_post": "}\n"},
        {"fn": "remove_structure_index", "file": F_I, "rewrites": STD + ["guard_into_wild"], "wrap_pre": "#[verifier::exec_allows_no_decreases_clause]\n"},
        {"fn": "remove_list_index", "file": F_I, "rewrites": STD},
        {"fn": "remove_constant_indices", "file": F_I, "rewrites": STD + ["guard_into_wild",
            # R6: the iterator over the constant and its alternative key becomes a vector of their heap cells
            ("replace", "let iter = once(&constant).chain(overlapping_constants.iter());", "let iter = literal_keys(constant, overlapping_constants);", "R6"),
            ("replace", "for constant in iter.map(|l| HeapCellValue::from(*l))", "for constant in iter", "R6")],
         "wrap_pre": "#[verifier::exec_allows_no_decreases_clause]\n"},
        {"fn": "remove_index", "file": F_I, "rewrites": STD},
    ],
}
