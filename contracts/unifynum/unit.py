import gen_ops
F_U = "src/machine/unify.rs"
F_FORMS = "src/forms.rs"
F_ERR = "src/machine/machine_errors.rs"
STD = ["strip_head", "name_return",
       ("macro_fn", "fixnum_as_cell", "fixnum_as_cell", "R5"),
       ("macro_fn", "typed_arena_ptr_as_cell", "typed_arena_ptr_as_cell", "R5"),
       ("replace", "if n1 == n2 =>", "if n1.eq(&n2) =>", "R9", False)]

def u(name):
    return {"fn": name, "within": ["trait", r"trait Unifier : DerefMut < Target = MachineState >"], "file": F_U, "emit_name": name,
            "rewrites": STD, "wrap_pre": "impl MachineState {\n", "wrap_post": "}\n"}

UNIT = {
    "name": "unifynum",
    "prelude": ["../common/number.rs", gen_ops.gen, "../common/floatk.rs", "prelude.rs"],
    "specs": ["unifynum.spec"],
    "explicit_use": ["Integer"],
    "broadcast_use": ["ax_number::axiom_fixnum_range", "ax_q::axiom_q_cmp_int", "ax_q::axiom_q_cmp_antisym"],
    "items": [
        {"block": "enum", "header": r"enum Number", "file": F_FORMS, "rewrites": ["strip_type_head"]},
        {"block": "enum", "header": r"enum EvalError", "file": F_ERR, "rewrites": ["strip_type_head"]},
        {"block": "enum", "header": r"enum ValidType", "file": F_ERR, "rewrites": ["strip_type_head"]},
        u("unify_fixnum"), u("unify_big_integer"), u("unify_big_rational"),
    ],
}
