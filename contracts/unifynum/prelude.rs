impl Clone for Number { #[verifier::external_body] fn clone(&self) -> (r: Self) ensures r == *self { unimplemented!() } }
impl Copy for Number {}
pub open spec fn is_exact(n: Number) -> bool { !(n is Float) }
pub open spec fn rval(n: Number) -> Rational {
    match n { Number::Fixnum(f) => q_of_int(f.v()), Number::Integer(p) => q_of_int(p.view().v()), Number::Rational(p) => p.view(), _ => arbitrary() }
}
pub open spec fn rev(o: Ordering) -> Ordering { match o { Ordering::Less => Ordering::Greater, Ordering::Equal => Ordering::Equal, Ordering::Greater => Ordering::Less } }
pub mod ax_q {
    use super::*;
    use vstd::prelude::*;
    #[verifier::external_body]
    pub broadcast proof fn axiom_q_cmp_int(a: int, b: int) ensures #[trigger] q_cmp(q_of_int(a), q_of_int(b)) == int_cmp(a, b) { }
    #[verifier::external_body]
    pub broadcast proof fn axiom_q_cmp_antisym(a: Rational, b: Rational) ensures #[trigger] q_cmp(a, b) == rev(q_cmp(b, a)) { }
}
// the part of the machine these functions touch
#[derive(Clone, Copy)]
pub struct HeapCellValue { pub bits: u64 }
pub struct Ref { pub r: u64 }
#[verifier::external_body] pub struct F64Table { _p: u8 }
pub struct ArenaS { pub f64_tbl: F64Table }
pub struct MachineState { pub fail: bool, pub arena: ArenaS }
pub uninterp spec fn is_var(c: HeapCellValue) -> bool;
pub uninterp spec fn num_of(c: HeapCellValue) -> Option<Number>;     // Number::try_from((cell, &f64_tbl))
impl HeapCellValue {
    #[verifier::external_body] pub fn as_var(self) -> (r: Option<Ref>) ensures r is Some == is_var(self) { unimplemented!() }
}
impl<'a> core::convert::TryFrom<(HeapCellValue, &'a F64Table)> for Number {
    type Error = ();
    #[verifier::external_body]
    fn try_from(v: (HeapCellValue, &'a F64Table)) -> (r: Result<Number, ()>)
        ensures match num_of(v.0) { Some(n) => r == Ok::<Number, ()>(n), None => r is Err } { unimplemented!() }
}
impl MachineState {
    // `self.deref()` / `self.deref_mut()` of the Unifier (DerefMut<Target = MachineState>): the machine itself
    #[verifier::external_body] pub fn deref(&self) -> (r: &MachineState) ensures *r == *self { unimplemented!() }
    #[verifier::external_body] pub fn deref_mut(&self) -> (r: &MachineState) ensures *r == *self { unimplemented!() }
    // binding a variable: outside this unit (no claim is made about the variable case)
    #[verifier::external_body] pub fn bind(s: &mut MachineState, r: Ref, c: HeapCellValue) { unimplemented!() }
}
#[verifier::external_body] pub fn fixnum_as_cell(n: Fixnum) -> (r: HeapCellValue) { unimplemented!() }
#[verifier::external_body] pub fn typed_arena_ptr_as_cell<T>(n: TypedArenaPtr<T>) -> (r: HeapCellValue) { unimplemented!() }
impl TypedArenaPtr<Rational> {
    #[verifier::external_body] pub fn eq(&self, o: &TypedArenaPtr<Rational>) -> (r: bool) ensures r == (q_cmp(self.view(), o.view()) is Equal) { unimplemented!() }
}
// equality of an exact number with the number stored in a cell, whatever the two encodings
pub open spec fn same_value(q: Rational, c: HeapCellValue) -> bool {
    num_of(c) matches Some(n2) && is_exact(n2) && q_cmp(q, rval(n2)) is Equal
}
