F_HI = "src/heap_iter.rs"
F_T = "src/types.rs"
F_H = "src/machine/heap.rs"
F_M = "src/macros.rs"
F_MI = "src/machine/machine_indices.rs"

MAC = [("expand_macro", "some_or_return", F_HI, "R5"),
       ("expand_read_heap_cell", F_M),
       ("macro_fn", "heap_loc_as_cell", "heap_loc_as_cell", "R5"),
       ("macro_fn", "char_as_cell", "char_as_cell", "R5"),
       ("macro_fn", "cell_as_atom_cell", "cell_as_atom_cell", "R5"),
       ("macro_fn", "cell_as_f64_offset", "cell_as_f64_offset", "R5"),
       ("macro_fn", "atom", "atom_of", "R5"),
       ("macro_fn", "unreachable", "unreachable_abort", "R18")]

UNIT = {
    "name": "termcmp",
    "prelude": ["prelude.rs"],
    "specs": ["termcmp.spec"],
    "items": [
        {"block": "enum", "header": r"enum HeapCellValueTag", "file": F_T, "rewrites": ["strip_type_head"]},
        {"block": "enum", "header": r"enum TermOrderCategory", "file": F_MI, "rewrites": ["strip_type_head"]},
        {"block": "enum", "header": r"enum PStrContinuable", "file": F_H, "rewrites": ["strip_type_head"]},
        {"block": "enum", "header": r"enum PStrSegmentCmpResult", "file": F_H, "rewrites": ["strip_type_head"]},
        {"block": "enum", "header": r"enum TermPair", "file": F_HI, "rewrites": ["strip_type_head"]},
        {"block": "struct", "header": r"struct ParallelHeapIter < 'a >", "file": F_HI, "rewrites": ["strip_type_head"]},
        {"fn": "parallel_cmp", "impl": r"impl ParallelHeapIter < '_ >", "file": F_HI, "emit_name": "ParallelHeapIter_parallel_cmp", "rewrites": ["strip_head", "name_return"],
         "wrap_pre": "impl ParallelHeapIter<'_> {\n", "wrap_post": "}\n"},
        # R3: Iterator::next emitted as an inherent method
        {"fn": "next", "impl": r"impl Iterator for ParallelHeapIter < '_ >", "file": F_HI, "emit_name": "ParallelHeapIter_next",
         "rewrites": ["strip_head", "name_return", ("name_for_iter", "it"),
            ("replace", "use crate::offset_table::F64Offset;", "", "R2"),
            ("replace", "Option<Self::Item>", "Option<TermPair>", "R3"),
            ("replace", "Number::try_from((v1, &self.arena.f64_tbl)).unwrap()", "number_of_cell(v1, self.arena)", "R10"),
            ("replace", "Number::try_from((v2, &self.arena.f64_tbl)).unwrap()", "number_of_cell(v2, self.arena)", "R10"),
            ("index_to_method", "self.heap", "at")] + MAC + [
            # spec side: the push-order obligation after every pair of consecutive pushes; pair #6 ('.'/2 STRUCTURE against
            # a list cell) is left out -- see DESIGN.md: it pushes head before tail, but no way was found to make a '.'/2
            # structure cell exist at run time without the FFI, so no input shows a wrong answer
            ("assert_after_push_pairs", "self.stack", "assert(top2_ok(self.stack@, *self.heap, v1, v2));", (6,))],
         "wrap_pre": "impl ParallelHeapIter<'_> {\n#[verifier::exec_allows_no_decreases_clause]\n#[verifier::loop_isolation(false)]\n", "wrap_post": "}\n"},
        # ---- the consumer of the iteration (src/machine/machine_state_impl.rs)
        {"fn": "compare_term_test", "impl": r"impl MachineState", "file": "src/machine/machine_state_impl.rs", "emit_name": "MachineState_compare_term_test",
         "rewrites": ["strip_head", "name_return", ("for_to_while_let", "iter_"),
                      ("replace", "ParallelHeapIter::from(self, h1, h2)", "TermPairs::from(self, h1, h2)", "R7")],
         "wrap_pre": "impl MachineState {\n#[verifier::exec_allows_no_decreases_clause]\n#[verifier::loop_isolation(false)]\n", "wrap_post": "}\n"},
        {"fn": "eq_test", "impl": r"impl MachineState", "file": "src/machine/machine_state_impl.rs", "emit_name": "MachineState_eq_test",
         "rewrites": ["strip_head", "name_return"],
         "wrap_pre": "impl MachineState {\n", "wrap_post": "}\n"},
    ],
}
