// ===== Shim prelude of unit termcmp (TRUSTED). =====
use core::marker::PhantomData;
pub use core::cmp::Ordering;
pub use vstd::std_specs::cmp::*;
global size_of usize == 8;
#[derive(Clone, Copy)]
pub struct HeapCellValue { pub bits: u64 }
impl HeapCellValue {
    pub uninterp spec fn tag(&self) -> HeapCellValueTag;
    pub uninterp spec fn val(&self) -> u64;
    #[verifier::external_body] pub fn get_tag(self) -> (r: HeapCellValueTag) ensures r == self.tag() { unimplemented!() }
    #[verifier::external_body] pub fn get_value(self) -> (r: u64) ensures r == self.val(), r < 0x100_0000_0000_0000 { unimplemented!() }
    #[verifier::external_body] pub fn order_category(self, heap: &Heap) -> (r: Option<TermOrderCategory>) { unimplemented!() }
}
impl Clone for HeapCellValueTag { #[verifier::external_body] fn clone(&self) -> (r: Self) ensures r == *self { unimplemented!() } }
impl Copy for HeapCellValueTag {}
impl Clone for TermOrderCategory { #[verifier::external_body] fn clone(&self) -> (r: Self) ensures r == *self { unimplemented!() } }
impl Copy for TermOrderCategory {}
impl Clone for PStrContinuable { #[verifier::external_body] fn clone(&self) -> (r: Self) ensures r == *self { unimplemented!() } }
impl Copy for PStrContinuable {}
impl Clone for PStrSegmentCmpResult { #[verifier::external_body] fn clone(&self) -> (r: Self) ensures r == *self { unimplemented!() } }
impl Copy for PStrSegmentCmpResult {}
// derived / library orders (their correctness is the business of units numcmp and order_kernels)
#[derive(Clone, Copy)] pub struct Atom { pub index: u64 }
#[derive(Clone, Copy)] pub struct OrderedFloat { pub bits: u64 }
#[derive(Clone, Copy)] pub struct Number { pub bits: u64 }
impl PartialEq for TermOrderCategory { #[verifier::external_body] fn eq(&self, o: &Self) -> bool { unimplemented!() } }
impl Eq for TermOrderCategory {}
impl PartialOrd for TermOrderCategory { #[verifier::external_body] fn partial_cmp(&self, o: &Self) -> Option<Ordering> { unimplemented!() } }
impl Ord for TermOrderCategory { #[verifier::external_body] fn cmp(&self, o: &Self) -> Ordering { unimplemented!() } }
impl PartialEq for Atom { #[verifier::external_body] fn eq(&self, o: &Self) -> bool { unimplemented!() } }
impl Eq for Atom {}
impl PartialOrd for Atom { #[verifier::external_body] fn partial_cmp(&self, o: &Self) -> Option<Ordering> { unimplemented!() } }
impl Ord for Atom { #[verifier::external_body] fn cmp(&self, o: &Self) -> Ordering { unimplemented!() } }
impl PartialEq for OrderedFloat { #[verifier::external_body] fn eq(&self, o: &Self) -> bool { unimplemented!() } }
impl Eq for OrderedFloat {}
impl PartialOrd for OrderedFloat { #[verifier::external_body] fn partial_cmp(&self, o: &Self) -> Option<Ordering> { unimplemented!() } }
impl Ord for OrderedFloat { #[verifier::external_body] fn cmp(&self, o: &Self) -> Ordering { unimplemented!() } }
impl PartialEq for Number { #[verifier::external_body] fn eq(&self, o: &Self) -> bool { unimplemented!() } }
impl Eq for Number {}
impl PartialOrd for Number { #[verifier::external_body] fn partial_cmp(&self, o: &Self) -> Option<Ordering> { unimplemented!() } }
impl Ord for Number { #[verifier::external_body] fn cmp(&self, o: &Self) -> Ordering { unimplemented!() } }
#[verifier::external_body] pub fn atom_of(s: &str) -> Atom { unimplemented!() }
#[derive(Clone, Copy)] pub struct F64Offset { pub o: usize }
#[verifier::external_body] pub fn cell_as_f64_offset(c: HeapCellValue) -> F64Offset { unimplemented!() }
pub struct F64Table;
impl F64Table { #[verifier::external_body] pub fn get_entry(&self, o: F64Offset) -> OrderedFloat { unimplemented!() } }
pub struct Arena { pub f64_tbl: F64Table }
#[verifier::external_body] pub fn number_of_cell(c: HeapCellValue, a: &Arena) -> Number { unimplemented!() }
pub struct AtomCell { pub name: Atom, pub arity: usize }
impl AtomCell {
    pub fn get_name_and_arity(&self) -> (r: (Atom, usize)) ensures r == (self.name, self.arity) { (self.name, self.arity) }
    pub fn get_name(&self) -> (r: Atom) ensures r == self.name { self.name }
}
pub uninterp spec fn functor_of(c: HeapCellValue) -> AtomCell;
#[verifier::external_body] pub fn cell_as_atom_cell(c: HeapCellValue) -> (r: AtomCell) ensures r == functor_of(c), r.arity < 0x1_0000_0000 { unimplemented!() }
pub uninterp spec fn heap_loc_cell(i: int) -> HeapCellValue;
pub uninterp spec fn char_cell(c: char) -> HeapCellValue;
#[verifier::external_body] pub fn heap_loc_as_cell(i: usize) -> (r: HeapCellValue) ensures r == heap_loc_cell(i as int) { unimplemented!() }
#[verifier::external_body] pub fn char_as_cell(c: char) -> (r: HeapCellValue) ensures r == char_cell(c) { unimplemented!() }
impl PStrContinuable { #[verifier::external_body] pub fn offset_by(&self, loc: usize) -> HeapCellValue { unimplemented!() } }

#[verifier::external_body]
pub struct Heap { _p: usize }
impl Heap {
    pub uninterp spec fn cells(&self) -> Seq<HeapCellValue>;
    pub uninterp spec fn head_char(&self, loc: int) -> char;
    pub uninterp spec fn tail_cell(&self, loc: int) -> HeapCellValue;
    #[verifier::external_body]
    pub fn last_str_char_and_tail(&self, loc: usize) -> (r: (char, HeapCellValue)) ensures r.0 == self.head_char(loc as int), r.1 == self.tail_cell(loc as int) { unimplemented!() }
    #[verifier::external_body]
    pub fn at(&self, i: usize) -> (r: HeapCellValue) ensures i < self.cells().len(), r == self.cells()[i as int] { unimplemented!() }
    #[verifier::external_body]
    pub fn compare_pstr_segments(&self, l1: usize, l2: usize) -> PStrSegmentCmpResult { unimplemented!() }
}
#[verifier::external_body] pub fn heap_bound_deref(heap: &Heap, v: HeapCellValue) -> HeapCellValue { unimplemented!() }
#[verifier::external_body] pub fn heap_bound_store(heap: &Heap, v: HeapCellValue) -> HeapCellValue { unimplemented!() }
pub struct FxBuildHasher;
#[verifier::external_body]
#[verifier::reject_recursive_types(K)]
#[verifier::accept_recursive_types(S)]
pub struct IndexSet<K, S> { _p: PhantomData<(K, S)> }
impl<K, S> IndexSet<K, S> {
    #[verifier::external_body] pub fn contains(&self, k: &K) -> bool { unimplemented!() }
    #[verifier::external_body] pub fn insert(&mut self, k: K) -> bool { unimplemented!() }
}
#[verifier::external_body] pub fn unreachable_abort() -> ! { unimplemented!() }

// ---- the consumer: the iteration is seen as the sequence of items it will yield (R7: ParallelHeapIter::from(..) is
// replaced by this ghost-sequence iterator; ParallelHeapIter::next itself is verified above)
impl vstd::std_specs::cmp::PartialEqSpecImpl for HeapCellValue {
    open spec fn obeys_eq_spec() -> bool { true }
    open spec fn eq_spec(&self, other: &HeapCellValue) -> bool { self.bits == other.bits }
}
impl PartialEq for HeapCellValue { fn eq(&self, other: &HeapCellValue) -> (r: bool) ensures r == (self.bits == other.bits) { self.bits == other.bits } }
pub struct MachineState { pub heap: Heap }
impl MachineState {
    pub uninterp spec fn stored(&self, c: HeapCellValue) -> HeapCellValue;
    #[verifier::external_body] pub fn store(&self, c: HeapCellValue) -> (r: HeapCellValue) ensures r == self.stored(c) { unimplemented!() }
}
pub uninterp spec fn pair_items(m: &MachineState, h1: HeapCellValue, h2: HeapCellValue) -> Seq<TermPair>;
#[verifier::external_body]
pub struct TermPairs { _p: usize }
impl TermPairs {
    pub uninterp spec fn items(&self) -> Seq<TermPair>;
    pub uninterp spec fn pos(&self) -> int;
    #[verifier::external_body]
    pub fn from(m: &MachineState, h1: HeapCellValue, h2: HeapCellValue) -> (r: TermPairs) ensures r.items() == pair_items(m, h1, h2), r.pos() == 0 { unimplemented!() }
    #[verifier::external_body]
    pub fn next(&mut self) -> (r: Option<TermPair>)
        requires 0 <= old(self).pos() <= old(self).items().len()
        ensures final(self).items() == old(self).items(), 0 <= final(self).pos() <= final(self).items().len(),
            old(self).pos() == old(self).items().len() ==> r is None && final(self).pos() == old(self).pos(),
            old(self).pos() < old(self).items().len() ==> r == Some(old(self).items()[old(self).pos()]) && final(self).pos() == old(self).pos() + 1,
    { unimplemented!() }
}
pub assume_specification [Ordering::is_eq] (o: Ordering) -> (r: bool) ensures r == (o is Equal);
