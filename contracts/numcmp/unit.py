import gen_ops

F_AR = "src/arithmetic.rs"
F_FORMS = "src/forms.rs"
F_ERR = "src/machine/machine_errors.rs"

STD = ["strip_head", "name_return", "ref_ops", "ref_patterns"]

UNIT = {
    "name": "numcmp",
    "prelude": ["../common/number.rs", gen_ops.gen, "../common/floatk.rs", "../common/stdspecs.rs", "prelude.rs"],
    "specs": ["numcmp.spec"],
    "explicit_use": ["Integer"],
    "broadcast_use": ["ax_number::axiom_fixnum_range", "ax_cmp::axiom_q_cmp_int", "ax_cmp::axiom_q_cmp_antisym", "ax_cmp::axiom_f_cmp_antisym", "ax_cmp::axiom_q_cmp_refl", "ax_cmp::axiom_f_cmp_refl", "ax_cmp::axiom_q_floor_cmp"],
    "items": [
        {"block": "enum", "header": r"enum Number", "file": F_FORMS, "rewrites": ["strip_type_head"]},
        {"block": "enum", "header": r"enum EvalError", "file": F_ERR, "rewrites": ["strip_type_head"]},
        {"block": "enum", "header": r"enum ValidType", "file": F_ERR, "rewrites": ["strip_type_head"]},
        {"fn": "cmp", "impl": r"impl Ord for Number", "file": F_AR, "emit_name": "Number_cmp",
         "rewrites": STD + [("replace", "n1.get_num() as f64", "i64_as_f64(n1.get_num())", "R10"), ("replace", "n2.get_num() as f64", "i64_as_f64(n2.get_num())", "R10")],
         "wrap_pre": "impl Number {\n", "wrap_post": "}\n"},
        {"fn": "eq", "impl": r"impl PartialEq for Number", "file": F_AR, "emit_name": "Number_eq",
         "rewrites": STD + [("replace", "n1.get_num() as f64", "i64_as_f64(n1.get_num())", "R10"), ("replace", "n2.get_num() as f64", "i64_as_f64(n2.get_num())", "R10")],
         "wrap_pre": "impl Number {\n", "wrap_post": "}\n"},
        {"fn": "partial_cmp", "impl": r"impl PartialOrd for Number", "file": F_AR, "emit_name": "Number_partial_cmp",
         "rewrites": STD, "wrap_pre": "impl Number {\n", "wrap_post": "}\n"},
        {"fn": "partial_cmp", "impl": r"impl PartialOrd < usize > for Number", "file": F_AR, "emit_name": "Number_partial_cmp_usize",
         "rewrites": STD + [("rename_fn", "Number_partial_cmp_usize"), ("replace", "(n as usize).partial_cmp(rhs)", "usize_partial_cmp(n as usize, rhs)", "R10"), ("replace", "*rhs as f64", "usize_as_f64(*rhs)", "R10")],
         "wrap_pre": "impl Number {\n", "wrap_post": "}\n"},
        {"fn": "eq", "impl": r"impl PartialEq < usize > for Number", "file": F_AR, "emit_name": "Number_eq_usize",
         "rewrites": STD + [("rename_fn", "Number_eq_usize"), ("replace", "(n as usize).eq(rhs)", "usize_eq(n as usize, rhs)", "R10"), ("replace", "*rhs as f64", "usize_as_f64(*rhs)", "R10")],
         "wrap_pre": "impl Number {\n", "wrap_post": "}\n"},
    ],
}
