impl Clone for Number { #[verifier::external_body] fn clone(&self) -> (r: Self) ensures r == *self { unimplemented!() } }
impl Copy for Number {}
pub open spec fn is_int(n: Number) -> bool { n is Fixnum || n is Integer }
pub open spec fn is_exact(n: Number) -> bool { !(n is Float) }
pub open spec fn ival(n: Number) -> int { match n { Number::Fixnum(f) => f.v(), Number::Integer(p) => p.view().v(), _ => 0 } }
pub open spec fn rval(n: Number) -> Rational {
    match n { Number::Fixnum(f) => q_of_int(f.v()), Number::Integer(p) => q_of_int(p.view().v()), Number::Rational(p) => p.view(), _ => arbitrary() }
}
pub open spec fn flt(n: Number) -> f64 {
    match n { Number::Fixnum(f) => f_of_i64(f.v()), Number::Integer(p) => f_of_int(p.view().v()), Number::Rational(p) => f_of_q(p.view()), Number::Float(OrderedFloat(f)) => f }
}
pub open spec fn rev(o: Ordering) -> Ordering { match o { Ordering::Less => Ordering::Greater, Ordering::Equal => Ordering::Equal, Ordering::Greater => Ordering::Less } }
pub uninterp spec fn f_total_cmp(a: f64, b: f64) -> Ordering;          // OrderedFloat: numeric order, -0.0 == +0.0, NaN == NaN greatest

// THE SPECIFICATION (from the property statement): exact operands compare by value; when one side is a
// float the exact side is converted to a double first.
pub open spec fn num_cmp_spec(a: Number, b: Number) -> Ordering {
    if is_exact(a) && is_exact(b) { q_cmp(rval(a), rval(b)) } else { f_total_cmp(flt(a), flt(b)) }
}

pub mod ax_cmp {
    use super::*;
    use vstd::prelude::*;
    #[verifier::external_body]
    pub broadcast proof fn axiom_q_cmp_int(a: int, b: int) ensures #[trigger] q_cmp(q_of_int(a), q_of_int(b)) == int_cmp(a, b) { }
    #[verifier::external_body]
    pub broadcast proof fn axiom_q_cmp_antisym(a: Rational, b: Rational) ensures #[trigger] q_cmp(a, b) == rev(q_cmp(b, a)) { }
    #[verifier::external_body]
    pub broadcast proof fn axiom_f_cmp_antisym(a: f64, b: f64) ensures #[trigger] f_total_cmp(a, b) == rev(f_total_cmp(b, a)) { }
    #[verifier::external_body]
    pub broadcast proof fn axiom_q_cmp_refl(a: Rational) ensures #[trigger] q_cmp(a, a) == Ordering::Equal { }
    #[verifier::external_body]
    pub broadcast proof fn axiom_f_cmp_refl(a: f64) ensures #[trigger] f_total_cmp(a, a) == Ordering::Equal { }
    // an integer against a rational, through the rational's floor
    #[verifier::external_body]
    pub broadcast proof fn axiom_q_floor_cmp(k: int, r: Rational)
        ensures (#[trigger] q_cmp(q_of_int(k), r) is Less) == (k < q_floor(r) || (k == q_floor(r) && !q_is_int(r))),
                (q_cmp(q_of_int(k), r) is Equal) == (k == q_floor(r) && q_is_int(r)) { }
}
// num-order's provided method num_cmp, and dashu's RBig::trunc / is_int (ASSUMED exact)
pub uninterp spec fn q_is_int(a: Rational) -> bool;
pub open spec fn q_trunc(a: Rational) -> int { if q_sign(a) >= 0 || q_is_int(a) { q_floor(a) } else { q_floor(a) + 1 } }
pub trait NumCmp<Rhs> { fn num_cmp(&self, o: &Rhs) -> Ordering; }
impl NumCmp<Integer> for i64 { #[verifier::external_body] fn num_cmp(&self, o: &Integer) -> (r: Ordering) ensures r == int_cmp(*self as int, o.v()) { unimplemented!() } }
impl NumCmp<i64> for Integer { #[verifier::external_body] fn num_cmp(&self, o: &i64) -> (r: Ordering) ensures r == int_cmp(self.v(), *o as int) { unimplemented!() } }
impl Rational {
    #[verifier::external_body] pub fn trunc(&self) -> (r: Integer) ensures r.v() == q_trunc(*self) { unimplemented!() }
    #[verifier::external_body] pub fn is_int(&self) -> (r: bool) ensures r == q_is_int(*self) { unimplemented!() }
}


#[verifier::external_body] pub fn i64_as_f64(n: i64) -> (r: f64) ensures r == f_of_i64(n as int) { unimplemented!() }
// dashu's *approximate* conversions are a different function from the correctly rounded one the
// properties prescribe (nothing is assumed about how close they are)
pub uninterp spec fn f_of_int_fast(i: int) -> f64;
pub uninterp spec fn f_of_q_fast(q: Rational) -> f64;
pub uninterp spec fn f_of_q_dashu(q: Rational) -> f64;
impl Integer { #[verifier::external_body] pub fn to_f64_fast(&self) -> (r: f64) ensures r == f_of_int_fast(self.v()) { unimplemented!() } }
impl Rational { #[verifier::external_body] pub fn to_f64_fast(&self) -> (r: f64) ensures r == f_of_q_fast(*self) { unimplemented!() } }
#[verifier::external_body] pub struct Approx { _p: u8 }
impl Approx { pub uninterp spec fn val(&self) -> f64;
    #[verifier::external_body] pub fn value(self) -> (r: f64) ensures r == self.val() { unimplemented!() } }
impl Integer {
    #[verifier::external_body] pub fn cmp(&self, o: &Integer) -> (r: Ordering) ensures r == int_cmp(self.v(), o.v()) { unimplemented!() }
    #[verifier::external_body] pub fn eq(&self, o: &Integer) -> (r: bool) ensures r == (self.v() == o.v()) { unimplemented!() }
    #[verifier::external_body] pub fn to_f64(&self) -> (r: Approx) ensures r.val() == f_of_int(self.v()) { unimplemented!() }
}
impl Rational {
    #[verifier::external_body] pub fn cmp(&self, o: &Rational) -> (r: Ordering) ensures r == q_cmp(*self, *o) { unimplemented!() }
    #[verifier::external_body] pub fn eq(&self, o: &Rational) -> (r: bool) ensures r == (q_cmp(*self, *o) is Equal) { unimplemented!() }
    // dashu-ratio's RBig::to_f64: its OWN function of the rational. That it is the correctly rounded conversion
    // f_of_q is NOT assumed here: it is the separate obligation lemma_dashu_ratio_to_f64_correctly_rounded (which is false
    // for dashu-ratio 0.4.2 -- a recorded finding)
    #[verifier::external_body] pub fn to_f64(&self) -> (r: Approx) ensures r.val() == f_of_q_dashu(*self) { unimplemented!() }
}
// TypedArenaPtr compares by pointee (src/arena.rs: ptr equality || **self == **other; Ord by deref)
impl TypedArenaPtr<Integer> {
    #[verifier::external_body] pub fn eq(&self, o: &TypedArenaPtr<Integer>) -> (r: bool) ensures r == (self.view().v() == o.view().v()) { unimplemented!() }
}
impl TypedArenaPtr<Rational> {
    #[verifier::external_body] pub fn eq(&self, o: &TypedArenaPtr<Rational>) -> (r: bool) ensures r == (q_cmp(self.view(), o.view()) is Equal) { unimplemented!() }
}
impl Fixnum {
    // derived PartialEq on the bitfield: bit equality == value equality for Fixnum cells (K: fixnum_cell_injective)
    #[verifier::external_body] pub fn eq(&self, o: &Fixnum) -> (r: bool) ensures r == (self.v() == o.v()) { unimplemented!() }
}
impl OrderedFloat<f64> {
    #[verifier::external_body] pub fn cmp(&self, o: &OrderedFloat<f64>) -> (r: Ordering) ensures r == f_total_cmp(self.0, o.0) { unimplemented!() }
    #[verifier::external_body] pub fn eq(&self, o: &OrderedFloat<f64>) -> (r: bool) ensures r == (f_total_cmp(self.0, o.0) is Equal) { unimplemented!() }
}
// comparisons against a machine word (PartialOrd<usize>/PartialEq<usize> for Number: arities, lengths, indices)
impl NumCmp<usize> for Integer { #[verifier::external_body] fn num_cmp(&self, o: &usize) -> (r: Ordering) ensures r == int_cmp(self.v(), *o as int) { unimplemented!() } }
impl NumCmp<Integer> for Rational { #[verifier::external_body] fn num_cmp(&self, o: &Integer) -> (r: Ordering) ensures r == q_cmp(*self, q_of_int(o.v())) { unimplemented!() } }
impl NumOrd<usize> for Integer {
    #[verifier::external_body] fn num_eq(&self, o: &usize) -> (r: bool) ensures r == (self.v() == *o as int) { unimplemented!() }
    #[verifier::external_body] fn num_gt(&self, o: &usize) -> (r: bool) ensures r == (self.v() > *o as int) { unimplemented!() }
    #[verifier::external_body] fn num_lt(&self, o: &usize) -> (r: bool) ensures r == (self.v() < *o as int) { unimplemented!() }
    #[verifier::external_body] fn num_partial_cmp(&self, o: &usize) -> (r: Option<Ordering>) ensures r == Some(int_cmp(self.v(), *o as int)) { unimplemented!() }
}
#[verifier::external_body] pub fn usize_as_f64(n: usize) -> (r: f64) ensures r == f_of_int(n as int) { unimplemented!() }
#[verifier::external_body] pub fn usize_partial_cmp(a: usize, b: &usize) -> (r: Option<Ordering>) ensures r == Some(int_cmp(a as int, *b as int)) { unimplemented!() }
#[verifier::external_body] pub fn usize_eq(a: usize, b: &usize) -> (r: bool) ensures r == (a == *b) { unimplemented!() }
impl OrderedFloat<f64> {
    #[verifier::external_body] pub fn partial_cmp(&self, o: &OrderedFloat<f64>) -> (r: Option<Ordering>) ensures r == Some(f_total_cmp(self.0, o.0)) { unimplemented!() }
}
// THE SPECIFICATION for a Number against a machine word: the word is the integer it denotes
pub open spec fn num_cmp_word(a: Number, w: usize) -> Ordering {
    if is_exact(a) { q_cmp(rval(a), q_of_int(w as int)) } else { f_total_cmp(flt(a), f_of_int(w as int)) }
}
