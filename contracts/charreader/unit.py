F = "src/parser/char_reader.rs"
STD = ["strip_head", "name_return",
       ("replace", "SmallVec<[u8; 32]>", "ByteBuf", "R7", False),
       ("replace", "&self.buf[self.pos..]", "self.buf.slice_from(self.pos)", "R6", False),
       ("macro_fn", "assert_eq", "assert_eq_holds", "R18", [2]),
       ("replace", "std::io::Error", "io::Error", "R7", False),
       ("replace", "c.len_utf8()", "char_len_utf8(c)", "R6", False),
       ("rename", "expect_err", "expect_err_m", "R19"), ("rename", "expect", "expect_m", "R19")]

def m(name, impl, extra=(), **kw):
    d = {"fn": name, "impl": impl, "file": F, "emit_name": name, "rewrites": STD + list(extra),
         "wrap_pre": "impl<R: Read> CharReader<R> {\n", "wrap_post": "}\n"}
    d.update(kw)
    return d

READ = r"impl < R : Read > CharReader < R >"
CHARREAD = r"impl < R : Read > CharRead for CharReader < R >"

UNIT = {
    "name": "charreader",
    "prelude": ["prelude.rs"],
    "specs": ["charreader.spec"],
    "broadcast_use": ["ax_utf8::axiom_utf8_error_shape", "ax_utf8::axiom_utf8_prefix_error_stable", "ax_utf8::axiom_utf8_incomplete",
                      "ax_utf8::axiom_utf8_empty_ok", "ax_utf8::axiom_len_utf8", "ax_utf8::axiom_utf8_first_is_prefix"],
    "items": [
        {"block": "struct", "header": r"struct CharReader < R >", "file": F, "rewrites": ["strip_type_head", ("replace", "SmallVec<[u8; 32]>", "ByteBuf", "R7")]},
        {"block": "struct", "header": r"struct BadUtf8Error", "file": F, "rewrites": ["strip_type_head"]},
        {"fn": "bad_bytes_error", "parent_fn": "peek_char", "impl": CHARREAD, "file": F, "rewrites": STD},
        m("read_chunk", READ),
        m("refresh_buffer", READ),
        m("peek_byte", READ, extra=[("replace", "_buf.first().cloned().map(Ok)", "first_byte(_buf)", "R6")]),
        m("peek_char", CHARREAD, extra=[("hoist_out", "bad_bytes_error"),
                                         ("replace", "bad_bytes_error(&self.buf[self.pos..])", "bad_bytes_error(self.buf.slice_from(self.pos))", "R6", False),
                                         ("replace", "let mut chars = s.chars(); let c = chars.next().expect_m( \"a non-empty buffer that is valid utf-8 contains at least one character\", );", "let c = first_char(s);", "R6"),
                                         ("replace", ".chars() .next() .expect_m(\"the valid prefix was non-empty\")", ".first_char_m()", "R6")]),
        m("put_back_char", CHARREAD, extra=[("replace", "c.encode_utf8(&mut self.buf[self.pos..]);", "buf_encode_utf8(&mut self.buf, self.pos, c);", "R6"),
                                            ("replace", "&[0u8; 4/* char::MAX_LEN_UTF8 once msrv reached 1.93 */][..c_len - self.pos]", "zeros(c_len - self.pos)", "R6")]),
        m("consume", CHARREAD),
        {"fn": "read_char", "within": ["trait", r"trait CharRead"], "file": F, "emit_name": "read_char", "rewrites": STD,
         "wrap_pre": "impl<R: Read> CharReader<R> {\n", "wrap_post": "}\n"},
    ],
}
