// ===== Shim prelude for CharReader (C18). TRUSTED parts are marked. =====
global size_of usize == 8;

// SmallVec<[u8; 32]> seen as a growable byte sequence (TRUSTED: smallvec behaves like Vec<u8>;
// drain / insert_from_slice / range indexing panic exactly when their range is not inside the vector,
// which the shims turn into proof obligations)
#[verifier::external_body]
pub struct ByteBuf { _p: usize }
pub trait DrainRange: Sized { spec fn lo(self) -> int; spec fn hi(self, len: int) -> int; }
impl DrainRange for core::ops::Range<usize> { open spec fn lo(self) -> int { self.start as int } open spec fn hi(self, len: int) -> int { self.end as int } }
impl DrainRange for core::ops::RangeFrom<usize> { open spec fn lo(self) -> int { self.start as int } open spec fn hi(self, len: int) -> int { len } }
impl ByteBuf {
    pub uninterp spec fn view(&self) -> Seq<u8>;
    #[verifier::external_body] pub fn new() -> (r: ByteBuf) ensures r@.len() == 0 { unimplemented!() }
    #[verifier::external_body] pub fn len(&self) -> (r: usize) ensures r == self@.len() { unimplemented!() }
    #[verifier::external_body] pub fn clear(&mut self) ensures final(self)@.len() == 0 { unimplemented!() }
    #[verifier::external_body]
    pub fn extend_from_slice(&mut self, s: &[u8]) ensures final(self)@ == old(self)@ + s@, final(self)@.len() <= usize::MAX { unimplemented!() }
    #[verifier::external_body]
    pub fn drain<D: DrainRange>(&mut self, r: D)
        requires r.lo() <= r.hi(old(self)@.len() as int), r.hi(old(self)@.len() as int) <= old(self)@.len()
        ensures final(self)@ == old(self)@.take(r.lo()) + old(self)@.skip(r.hi(old(self)@.len() as int)) { unimplemented!() }
    #[verifier::external_body]
    pub fn insert_from_slice(&mut self, idx: usize, s: &[u8])
        requires idx <= old(self)@.len()
        ensures final(self)@ == old(self)@.take(idx as int) + s@ + old(self)@.skip(idx as int), final(self)@.len() <= usize::MAX { unimplemented!() }
    // `&buf[pos..]`
    #[verifier::external_body]
    pub fn slice_from(&self, pos: usize) -> (r: &[u8]) requires pos <= self@.len() ensures r@ == self@.skip(pos as int) { unimplemented!() }
}
impl core::ops::Deref for ByteBuf {
    type Target = [u8];
    #[verifier::external_body] fn deref(&self) -> (r: &[u8]) ensures r@ == self@ { unimplemented!() }
}
// `c.encode_utf8(&mut buf[pos..])` panics if fewer than c.len_utf8() bytes are available
#[verifier::external_body]
pub fn buf_encode_utf8(b: &mut ByteBuf, pos: usize, c: char)
    requires pos + len_utf8_spec(c) <= old(b)@.len()
    ensures final(b)@.len() == old(b)@.len(), final(b)@.take(pos as int) == old(b)@.take(pos as int),
            final(b)@.skip(pos + len_utf8_spec(c)) == old(b)@.skip(pos + len_utf8_spec(c)),
            final(b)@.subrange(pos as int, pos + len_utf8_spec(c)) == utf8_of(c) { unimplemented!() }
#[verifier::external_body]
pub fn zeros(n: usize) -> (r: &'static [u8]) requires n <= 4 ensures r@.len() == n { unimplemented!() }
#[verifier::external_body]
pub fn first_byte(s: &[u8]) -> (r: Option<io::Result<u8>>) ensures s@.len() == 0 ==> r is None, s@.len() > 0 ==> r is Some { unimplemented!() }

// ---- UTF-8 (TRUSTED: std::str::from_utf8 and Utf8Error as documented)
pub uninterp spec fn utf8_of(c: char) -> Seq<u8>;
pub open spec fn len_utf8_spec(c: char) -> int { utf8_of(c).len() as int }
pub uninterp spec fn utf8_ok(s: Seq<u8>) -> bool;                     // s is valid UTF-8
pub uninterp spec fn utf8_valid_up_to(s: Seq<u8>) -> int;             // Utf8Error::valid_up_to
pub uninterp spec fn utf8_error_len(s: Seq<u8>) -> Option<int>;       // Utf8Error::error_len (None: unexpected end of input)
pub uninterp spec fn utf8_first(s: Seq<u8>) -> char;                  // first scalar value of a valid, non-empty text
#[verifier::external_body]
pub struct Utf8Error { _p: usize }
impl Utf8Error {
    pub uninterp spec fn of(&self) -> Seq<u8>;        // the bytes whose validation produced this error
    #[verifier::external_body] pub fn valid_up_to(&self) -> (r: usize) ensures r == utf8_valid_up_to(self.of()) { unimplemented!() }
    #[verifier::external_body] pub fn error_len(&self) -> (r: Option<usize>)
        ensures match utf8_error_len(self.of()) { Some(n) => r == Some(n as usize), None => r is None } { unimplemented!() }
}
#[verifier::external_body]
pub struct StrRef<'a> { _p: &'a u8 }
impl<'a> StrRef<'a> {
    pub uninterp spec fn bytes(&self) -> Seq<u8>;
    // `s.chars().next().expect(..)`: a valid non-empty text has a first character
    #[verifier::external_body]
    pub fn first_char_m(self) -> (r: char) requires self.bytes().len() > 0 ensures r == utf8_first(self.bytes()) { unimplemented!() }
}
#[verifier::external_body]
pub fn first_char<'a>(s: StrRef<'a>) -> (r: char) requires s.bytes().len() > 0 ensures r == utf8_first(s.bytes()) { unimplemented!() }
pub mod str {
    use vstd::prelude::*;
    use super::*;
    #[verifier::external_body]
    pub fn from_utf8<'a>(s: &'a [u8]) -> (r: Result<StrRef<'a>, Utf8Error>)
        ensures utf8_ok(s@) ==> (r matches Ok(t) && t.bytes() == s@),
                !utf8_ok(s@) ==> (r matches Err(e) && e.of() == s@) { unimplemented!() }
}
pub mod ax_utf8 {
    use vstd::prelude::*;
    use super::*;
    // facts about UTF-8 validation, from the std documentation of Utf8Error
    #[verifier::external_body]
    pub broadcast proof fn axiom_utf8_error_shape(s: Seq<u8>)
        ensures !#[trigger] utf8_ok(s) ==> (
            0 <= utf8_valid_up_to(s) < s.len()
            && utf8_ok(s.take(utf8_valid_up_to(s)))
            && (match utf8_error_len(s) {
                    Some(n) => 1 <= n <= 3 && utf8_valid_up_to(s) + n <= s.len(),
                    None => s.len() - utf8_valid_up_to(s) < 4 })) { }
    // an invalid sequence at the start stays invalid, with the same length, whatever follows it
    #[verifier::external_body]
    pub broadcast proof fn axiom_utf8_prefix_error_stable(s: Seq<u8>, k: int)
        requires 0 <= k <= s.len(), !utf8_ok(s.take(k)), utf8_valid_up_to(s.take(k)) == 0, utf8_error_len(s.take(k)) is Some
        ensures !utf8_ok(s), utf8_valid_up_to(s) == 0, utf8_error_len(s) == #[trigger] utf8_error_len(s.take(k)) { }
    // an incomplete sequence (nothing valid before it, no error length) makes the whole text invalid with nothing valid before it
    #[verifier::external_body]
    pub broadcast proof fn axiom_utf8_incomplete(s: Seq<u8>)
        ensures (!#[trigger] utf8_ok(s) && utf8_valid_up_to(s) == 0 && utf8_error_len(s) is None) ==> s.len() < 4 { }
    // the encoding of the first character of a valid text is a prefix of that text
    #[verifier::external_body]
    pub broadcast proof fn axiom_utf8_first_is_prefix(s: Seq<u8>)
        ensures (utf8_ok(s) && s.len() > 0) ==> utf8_of(#[trigger] utf8_first(s)).is_prefix_of(s) { }
    #[verifier::external_body]
    pub broadcast proof fn axiom_utf8_empty_ok() ensures #[trigger] utf8_ok(Seq::<u8>::empty()) { }
    #[verifier::external_body]
    pub broadcast proof fn axiom_len_utf8(c: char) ensures 1 <= #[trigger] len_utf8_spec(c) <= 4 { }
}
#[verifier::external_body] pub fn char_len_utf8(c: char) -> (r: usize) ensures r == len_utf8_spec(c), 1 <= r <= 4 { unimplemented!() }
pub assume_specification<T: Clone> [<[T]>::to_vec] (s: &[T]) -> (r: Vec<T>) ensures r@ == s@;

// ---- std::io (TRUSTED)
pub mod io {
    use vstd::prelude::*;
    use super::*;
    pub enum ErrorKind { InvalidData, Other }
    #[verifier::external_body] pub struct Error { _p: usize }
    impl Error {
        pub uninterp spec fn bad(&self) -> Option<Seq<u8>>;     // the payload of a BadUtf8Error, if that is what the error wraps
        #[verifier::external_body]
        pub fn new(k: ErrorKind, e: BadUtf8Error) -> (r: Error) ensures r.bad() == Some(e.bytes@) { unimplemented!() }
    }
    pub type Result<T> = core::result::Result<T, Error>;
}
// the underlying source: any `Read`; a read returns at most the length of the buffer it was given
pub trait Read {
    fn read(&mut self, buf: &mut [u8]) -> (r: io::Result<usize>) ensures r matches Ok(n) ==> n <= old(buf)@.len(), final(buf)@.len() == old(buf)@.len(), r matches Err(e) ==> e.bad() is None;
}
// `assert_eq!(a, b, msg)`: a failing assert_eq! is a panic, which C18 forbids: proof obligation (R18)
pub fn assert_eq_holds(a: usize, b: usize) requires a == b { }

// `.expect(..)` / `.expect_err(..)`: a failing expect is a panic, which C18 forbids: proof obligations (R19)
pub trait ExpectM<T>: Sized { spec fn has(self) -> bool; spec fn val(self) -> T; fn expect_m(self, msg: &str) -> (r: T) requires self.has() ensures r == self.val(); }
impl<T> ExpectM<T> for Option<T> {
    open spec fn has(self) -> bool { self is Some }
    open spec fn val(self) -> T { self->0 }
    #[verifier::external_body] fn expect_m(self, msg: &str) -> (r: T) { unimplemented!() }
}
impl<T, E> ExpectM<T> for Result<T, E> {
    open spec fn has(self) -> bool { self is Ok }
    open spec fn val(self) -> T { self->Ok_0 }
    #[verifier::external_body] fn expect_m(self, msg: &str) -> (r: T) { unimplemented!() }
}
pub trait ExpectErrM<E>: Sized { spec fn has_err(self) -> bool; spec fn err(self) -> E; fn expect_err_m(self, msg: &str) -> (r: E) requires self.has_err() ensures r == self.err(); }
impl<T, E> ExpectErrM<E> for Result<T, E> {
    open spec fn has_err(self) -> bool { self is Err }
    open spec fn err(self) -> E { self->Err_0 }
    #[verifier::external_body] fn expect_err_m(self, msg: &str) -> (r: E) { unimplemented!() }
}
