// ===== Shim prelude of unit quoting (TRUSTED). =====
// Unicode class predicates of `char` are uninterpreted; only their values on the ASCII punctuation
// that the classifier names explicitly are assumed (ax_ascii_classes).
pub uninterp spec fn u_numeric(c: char) -> bool;
pub uninterp spec fn u_whitespace(c: char) -> bool;
pub uninterp spec fn u_control(c: char) -> bool;
pub uninterp spec fn u_alphabetic(c: char) -> bool;
pub uninterp spec fn u_uppercase(c: char) -> bool;
pub assume_specification [char::is_numeric] (c: char) -> (r: bool) ensures r == u_numeric(c);
pub assume_specification [char::is_control] (c: char) -> (r: bool) ensures r == u_control(c);
pub assume_specification [char::is_alphabetic] (c: char) -> (r: bool) ensures r == u_alphabetic(c);
pub assume_specification [char::is_uppercase] (c: char) -> (r: bool) ensures r == u_uppercase(c);

// (vstd already specifies char::is_whitespace under a name that cannot be referred to here: the call is
// renamed to this trait method, R13)
pub trait CharExt { fn is_whitespace_u(self) -> bool; }
impl CharExt for char { #[verifier::external_body] fn is_whitespace_u(self) -> (r: bool) ensures r == u_whitespace(self) { unimplemented!() } }

// an iterator over characters, seen as a fixed sequence `full()` and the position `pos()` of the next item
#[verifier::external_body]
pub struct CharIter { _p: usize }
impl CharIter {
    pub uninterp spec fn full(&self) -> Seq<char>;
    pub uninterp spec fn pos(&self) -> int;
    pub open spec fn wf(&self) -> bool { 0 <= self.pos() <= self.full().len() }
    #[verifier::external_body]
    pub fn next(&mut self) -> (r: Option<char>)
        requires old(self).wf(),
        ensures
            final(self).wf(), final(self).full() == old(self).full(),
            old(self).pos() == old(self).full().len() ==> r is None && final(self).pos() == old(self).pos(),
            old(self).pos() < old(self).full().len() ==> r == Some(old(self).full()[old(self).pos()]) && final(self).pos() == old(self).pos() + 1,
    { unimplemented!() }
    // Iterator::all: true iff the predicate answered true on every remaining element (the closure's
    // own verified contract says what its answers mean); it may stop early
    #[verifier::external_body]
    pub fn all<F: FnMut(char) -> bool>(&mut self, f: F) -> (r: bool)
        requires old(self).wf(), forall|c: char| f.requires((c,)),
        ensures
            final(self).wf(), final(self).full() == old(self).full(),
            r ==> forall|i: int| old(self).pos() <= i < old(self).full().len() ==> f.ensures((#[trigger] old(self).full()[i],), true),
            !r ==> exists|i: int| old(self).pos() <= i < old(self).full().len() && f.ensures((#[trigger] old(self).full()[i],), false),
    { unimplemented!() }
}

pub use vstd::string::*;
// `non_quoted_token(atom.chars())`: the characters of the text, from the start
#[verifier::external_body]
pub fn str_chars(s: &str) -> (r: CharIter) ensures r.full() == s@, r.pos() == 0 { unimplemented!() }
// `String += &String` (std AddAssign<&str>)
#[verifier::external_body]
pub fn string_append(dst: &mut String, src: &String) ensures final(dst)@ == old(dst)@ + src@ { unimplemented!() }
// `c.to_string()` for a char
#[verifier::external_body]
pub fn char_to_owned(c: char) -> (r: String) ensures r@ == seq![c] { unimplemented!() }
// `format!("\\x{:x}\\", n)`: backslash, x, lower-case hex digits of n, backslash (digits not modelled)
pub uninterp spec fn hex_digits(n: u32) -> Seq<char>;
#[verifier::external_body]
pub fn hex_escape(n: u32) -> (r: String) ensures r@ == seq!['\\', 'x'] + hex_digits(n) + seq!['\\'] { unimplemented!() }
pub struct HCPrinter { pub quoted: bool }
