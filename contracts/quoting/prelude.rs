// ===== Shim prelude of unit quoting (TRUSTED). =====
// Unicode class predicates of `char` are uninterpreted; only their values on the ASCII punctuation
// that the classifier names explicitly are assumed (ax_ascii_classes).
pub uninterp spec fn u_numeric(c: char) -> bool;
pub uninterp spec fn u_whitespace(c: char) -> bool;
pub uninterp spec fn u_control(c: char) -> bool;
pub uninterp spec fn u_alphabetic(c: char) -> bool;
pub uninterp spec fn u_uppercase(c: char) -> bool;
pub assume_specification [char::is_numeric] (c: char) -> (r: bool) ensures r == u_numeric(c);
pub assume_specification [char::is_control] (c: char) -> (r: bool) ensures r == u_control(c);
pub assume_specification [char::is_alphabetic] (c: char) -> (r: bool) ensures r == u_alphabetic(c);
pub assume_specification [char::is_uppercase] (c: char) -> (r: bool) ensures r == u_uppercase(c);
// char::is_ascii_control is exact: U+0000..U+001F and U+007F
pub assume_specification [char::is_ascii_control] (c: &char) -> (r: bool) ensures r == ((*c as u32) < 0x20 || (*c as u32) == 0x7f);
// the ASCII class tests of `char` are exact ranges (std documentation; seeded C55i used one of them)
pub assume_specification [char::is_ascii_uppercase] (c: &char) -> (r: bool) ensures r == (0x41 <= (*c as u32) <= 0x5a);
pub assume_specification [char::is_ascii_lowercase] (c: &char) -> (r: bool) ensures r == (0x61 <= (*c as u32) <= 0x7a);
pub assume_specification [char::is_ascii_digit] (c: &char) -> (r: bool) ensures r == (0x30 <= (*c as u32) <= 0x39);
pub assume_specification [char::is_ascii_alphabetic] (c: &char) -> (r: bool) ensures r == ((0x41 <= (*c as u32) <= 0x5a) || (0x61 <= (*c as u32) <= 0x7a));
pub assume_specification [char::is_ascii] (c: &char) -> (r: bool) ensures r == ((*c as u32) < 0x80);

// (vstd already specifies char::is_whitespace under a name that cannot be referred to here: the call is
// renamed to this trait method, R13)
pub trait CharExt { fn is_whitespace_u(self) -> bool; }
impl CharExt for char { #[verifier::external_body] fn is_whitespace_u(self) -> (r: bool) ensures r == u_whitespace(self) { unimplemented!() } }

// an iterator over characters, seen as a fixed sequence `full()` and the position `pos()` of the next item
#[verifier::external_body]
pub struct CharIter { _p: usize }
impl CharIter {
    pub uninterp spec fn full(&self) -> Seq<char>;
    pub uninterp spec fn pos(&self) -> int;
    pub open spec fn wf(&self) -> bool { 0 <= self.pos() <= self.full().len() }
    #[verifier::external_body]
    pub fn next(&mut self) -> (r: Option<char>)
        requires old(self).wf(),
        ensures
            final(self).wf(), final(self).full() == old(self).full(),
            old(self).pos() == old(self).full().len() ==> r is None && final(self).pos() == old(self).pos(),
            old(self).pos() < old(self).full().len() ==> r == Some(old(self).full()[old(self).pos()]) && final(self).pos() == old(self).pos() + 1,
    { unimplemented!() }
    // Iterator::all: true iff the predicate answered true on every remaining element (the closure's
    // own verified contract says what its answers mean); it may stop early
    #[verifier::external_body]
    pub fn all<F: FnMut(char) -> bool>(&mut self, f: F) -> (r: bool)
        requires old(self).wf(), forall|c: char| f.requires((c,)),
        ensures
            final(self).wf(), final(self).full() == old(self).full(),
            r ==> forall|i: int| old(self).pos() <= i < old(self).full().len() ==> f.ensures((#[trigger] old(self).full()[i],), true),
            !r ==> exists|i: int| old(self).pos() <= i < old(self).full().len() && f.ensures((#[trigger] old(self).full()[i],), false),
    { unimplemented!() }
}

pub use vstd::string::*;
// `non_quoted_token(atom.chars())`: the characters of the text, from the start
#[verifier::external_body]
pub fn str_chars(s: &str) -> (r: CharIter) ensures r.full() == s@, r.pos() == 0 { unimplemented!() }
// `String += &String` (std AddAssign<&str>)
#[verifier::external_body]
pub fn string_append(dst: &mut String, src: &String) ensures final(dst)@ == old(dst)@ + src@ { unimplemented!() }
// `c.to_string()` for a char
#[verifier::external_body]
pub fn char_to_owned(c: char) -> (r: String) ensures r@ == seq![c] { unimplemented!() }
// `format!("\\x{:x}\\", n)`: backslash, x, lower-case hex digits of n, backslash (digits not modelled)
pub uninterp spec fn hex_digits(n: u32) -> Seq<char>;
#[verifier::external_body]
pub fn hex_escape(n: u32) -> (r: String) ensures r@ == seq!['\\', 'x'] + hex_digits(n) + seq!['\\'] { unimplemented!() }

// ---- printer state for the canonical-output methods
#[derive(Clone, Copy)]
pub struct Atom { pub index: u64 }
// derived PartialEq of the real Atom: equality of the index
impl vstd::std_specs::cmp::PartialEqSpecImpl for Atom {
    open spec fn obeys_eq_spec() -> bool { true }
    open spec fn eq_spec(&self, other: &Atom) -> bool { self.index == other.index }
}
impl PartialEq for Atom {
    fn eq(&self, other: &Atom) -> (r: bool) ensures r == (self.index == other.index) { self.index == other.index }
}
pub uninterp spec fn atom_index(s: Seq<char>) -> u64;
// atom!("..."): the static atom with that text
#[verifier::external_body]
pub fn atom_of(s: &str) -> (r: Atom) ensures r.index == atom_index(s@) { unimplemented!() }
#[derive(Clone, Copy)]
pub struct OpSpec { pub bits: u8 }
impl OpSpec {
    pub uninterp spec fn infix(&self) -> bool;
    pub uninterp spec fn prefix(&self) -> bool;
    #[verifier::external_body] pub fn is_infix(&self) -> (r: bool) ensures r == self.infix() { unimplemented!() }
    #[verifier::external_body] pub fn is_prefix(&self) -> (r: bool) ensures r == self.prefix() { unimplemented!() }
}
#[derive(Clone, Copy)]
pub struct OpDesc { pub prec: u16, pub spec: u8 }
impl OpDesc {
    pub fn get_prec(&self) -> (r: u16) ensures r == self.prec { self.prec }
    pub fn get_spec(&self) -> (r: OpSpec) ensures r.bits == self.spec { OpSpec { bits: self.spec } }
}
// what a printer method asked for, in call order (ghost)
pub enum Call {
    NumberedVars, List(usize), Op(usize, Atom, OpDesc), Curly(usize), Struct(usize, usize, Atom),
    Clause(usize, usize, Atom, Option<OpDesc>),
}
pub enum TokenOrRedirect { Open, Close, Space, Other(u64) }
#[derive(Clone, Copy)]
pub enum DirectedOp { Left(Atom, OpDesc), Right(Atom, OpDesc) }
#[verifier::external_body] pub struct AtomStr { _p: usize }
impl Atom { #[verifier::external_body] pub fn as_str(&self) -> AtomStr { unimplemented!() } }
impl DirectedOp {
    #[verifier::external_body] pub fn as_atom(&self) -> Atom { unimplemented!() }
    #[verifier::external_body] pub fn is_prefix(&self) -> bool { unimplemented!() }
    #[verifier::external_body] pub fn is_left(&self) -> bool { unimplemented!() }
}
#[verifier::external_body] pub fn needs_bracketing(child_desc: OpDesc, op: &DirectedOp) -> bool { unimplemented!() }
#[verifier::external_body] pub fn requires_space(atom: &AtomStr, op: &str) -> bool { unimplemented!() }
#[verifier::external_body] pub struct Outp { _p: usize }
impl Outp { #[verifier::external_body] pub fn ends_with(&self, s: &str) -> bool { unimplemented!() } }
pub struct HCPrinter {
    pub quoted: bool, pub numbervars: bool, pub ignore_ops: bool,
    pub state_stack: Vec<TokenOrRedirect>,
    pub calls: Ghost<Seq<Call>>,
    pub outputter: Outp,
    pub parent_of_first_op: Option<(DirectedOp, usize)>,
    pub last_item_idx: usize,
}
impl HCPrinter {
    #[verifier::external_body] pub fn immediate_leaf_is_nonnegative_number(&self) -> bool { unimplemented!() }
}
impl HCPrinter {
    pub open spec fn logged(old_: HCPrinter, new_: HCPrinter, c: Call) -> bool {
        new_.calls@ == old_.calls@.push(c) && new_.quoted == old_.quoted && new_.numbervars == old_.numbervars
        && new_.ignore_ops == old_.ignore_ops && new_.state_stack@ == old_.state_stack@
    }
    #[verifier::external_body] pub fn format_numbered_vars(&mut self) -> (r: bool) ensures Self::logged(*old(self), *final(self), Call::NumberedVars) { unimplemented!() }
    #[verifier::external_body] pub fn push_list(&mut self, max_depth: usize) ensures Self::logged(*old(self), *final(self), Call::List(max_depth)) { unimplemented!() }
    #[verifier::external_body] pub fn enqueue_op(&mut self, max_depth: usize, name: Atom, spec: OpDesc) ensures Self::logged(*old(self), *final(self), Call::Op(max_depth, name, spec)) { unimplemented!() }
    #[verifier::external_body] pub fn format_curly_braces(&mut self, max_depth: usize) -> (r: bool) ensures Self::logged(*old(self), *final(self), Call::Curly(max_depth)) { unimplemented!() }
    #[verifier::external_body] pub fn format_struct(&mut self, max_depth: usize, arity: usize, name: Atom) -> (r: bool) ensures Self::logged(*old(self), *final(self), Call::Struct(max_depth, arity, name)) { unimplemented!() }
}
