F_P = "src/heap_print.rs"
F_M = "src/parser/macros.rs"

CLASSES = ["alpha_numeric_char", "alpha_char", "small_letter_char", "graphic_token_char", "graphic_char", "backslash_char",
           "layout_char", "meta_char", "solo_char", "semicolon_char", "cut_char"]
STD = ["strip_head", "name_return"] + [("expand_macro", c, F_M, "R5") for c in CLASSES] + [("expand_char_class", F_M), ("rename", "is_whitespace", "is_whitespace_u", "R13")] + [
    # R7: the generic iterator parameter becomes the ghost-sequence iterator of the prelude
    ("replace", "<Iter: Iterator<Item = char>>", "", "R7"),
    ("replace", "mut iter: Iter", "mut iter: CharIter", "R7"),
]

UNIT = {
    "name": "quoting",
    "prelude": ["prelude.rs"],
    "specs": ["quoting.spec"],
    "items": [
        {"fn": "non_quoted_graphic_token", "file": F_P, "rewrites": STD},
        {"fn": "non_quoted_token", "file": F_P, "rewrites": STD},
        {"fn": "char_to_string", "file": F_P, "rewrites": ["strip_head", "name_return",
            ("replace", "c.to_string()", "char_to_owned(c)", "R6", False),
            ("rename", "is_whitespace", "is_whitespace_u", "R13"),
            ("replace", r'format!("\\x{:x}\\", c as u32)', "hex_escape(c as u32)", "R5")]},
        # R7: of the printer state only the flag `quoted` is read by this method
        {"fn": "print_op_addendum", "impl": r"impl <.*Outputter : HCValueOutputter > HCPrinter <.*>", "file": F_P, "emit_name": "HCPrinter_print_op_addendum",
         "rewrites": ["strip_head", "name_return", ("name_for_iter", "it"),
            ("replace", "non_quoted_token(atom.chars())", "non_quoted_token(str_chars(atom))", "R7", False),
            ("replace", "result += &char_to_string(self.quoted, c);", "string_append(&mut result, &char_to_string(self.quoted, c));", "R12")],
         "wrap_pre": "impl HCPrinter {\n", "wrap_post": "}\n"},
        # ---- canonical output (ignore_ops): R7 printer state reduced to the fields these methods touch; the
        # methods they call are ghost-logged shims
        {"fn": "is_numbered_var", "file": F_P, "rewrites": ["strip_head", "name_return", ("macro_fn", "atom", "atom_of", "R5")]},
        {"fn": "format_clause", "impl": r"impl <.*Outputter : HCValueOutputter > HCPrinter <.*>", "file": F_P, "emit_name": "HCPrinter_format_clause",
         "rewrites": ["strip_head", "name_return",
            # R5: a macro in pattern position becomes a guard on a fresh binding
            ("atom_pattern_guard", "atom_of"),
            ("macro_fn", "atom", "atom_of", "R5")],
         "wrap_pre": "impl HCPrinter {\n", "wrap_post": "}\n"},
        {"fn": "handle_op_as_struct", "impl": r"impl <.*Outputter : HCValueOutputter > HCPrinter <.*>", "file": F_P, "emit_name": "HCPrinter_handle_op_as_struct",
         "rewrites": ["strip_head", "name_return", ("macro_fn", "atom", "atom_of", "R5"),
            # R6: the heap look-ahead with its number-classifying closure is one opaque query (UNVERIFIED)
            ("replace", """self.iter.immediate_leaf_has_property(|addr| {
                            match Number::try_from((addr, &self.arena.f64_tbl)) {
                                Ok(Number::Integer(n)) => (*n).sign() == Sign::Positive,
                                Ok(Number::Fixnum(n)) => n.get_num() >= 0,
                                Ok(Number::Float(f)) => f >= OrderedFloat(0f64),
                                Ok(Number::Rational(r)) => (*r).sign() == Sign::Positive,
                                _ => false,
                            }
                        })""", "self.immediate_leaf_is_nonnegative_number()", "R6"),
            # R16: a tuple pattern in closure-parameter position becomes a let-destructuring
            ("replace", ".and_then(|(parent_op, last_item_idx)| {", ".and_then(|p_: (DirectedOp, usize)| -> (o_: Option<DirectedOp>) { let (parent_op, last_item_idx) = p_;", "R16")],
         "wrap_pre": "impl HCPrinter {\n", "wrap_post": "}\n"},
    ],
}
