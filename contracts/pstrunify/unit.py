F_U = "src/machine/unify.rs"
F_T = "src/types.rs"
F_H = "src/machine/heap.rs"
F_M = "src/macros.rs"

MAC = [("expand_read_heap_cell", F_M),
       ("macro_fn", "heap_loc_as_cell", "heap_loc_as_cell", "R5"),
       ("macro_fn", "pstr_loc_as_cell", "pstr_loc_as_cell", "R5"),
       ("macro_fn", "char_as_cell", "char_as_cell", "R5"),
       ("macro_fn", "cell_as_atom_cell", "cell_as_atom_cell", "R5"),
       ("macro_fn", "atom", "atom_of", "R5")]

UNIT = {
    "name": "pstrunify",
    "prelude": ["prelude.rs"],
    "specs": ["pstrunify.spec"],
    "items": [
        {"block": "enum", "header": r"enum HeapCellValueTag", "file": F_T, "rewrites": ["strip_type_head"]},
        {"block": "enum", "header": r"enum PStrContinuable", "file": F_H, "rewrites": ["strip_type_head"]},
        {"block": "enum", "header": r"enum PStrSegmentCmpResult", "file": F_H, "rewrites": ["strip_type_head"]},
        {"fn": "as_var", "impl": r"impl HeapCellValue", "file": F_T, "emit_name": "HeapCellValue_as_var", "rewrites": ["strip_head", "name_return"] + MAC[:1],
         "wrap_pre": "impl HeapCellValue {\n", "wrap_post": "}\n"},
        {"fn": "offset_by", "impl": r"impl PStrContinuable", "file": F_H, "emit_name": "PStrContinuable_offset_by", "rewrites": ["strip_head", "name_return",
            ("expand_macro", "cell_index", F_M, "R5"), ("replace", "std::mem::size_of::<HeapCellValue>()", "8usize", "R7", False)] + MAC[1:],
         "wrap_pre": "impl PStrContinuable {\n", "wrap_post": "}\n"},
        {"fn": "partial_string_to_pdl", "impl": r"impl MachineState", "file": F_U, "emit_name": "MachineState_partial_string_to_pdl", "rewrites": ["strip_head", "name_return"] + MAC[1:],
         "wrap_pre": "impl MachineState {\n", "wrap_post": "}\n"},
        # R3: a provided method of trait Unifier (Self: DerefMut<Target = MachineState>) is emitted as an inherent
        # method of MachineState; `self.deref_mut()` is then the identity
        {"fn": "unify_partial_string", "within": ("trait", r"trait Unifier : DerefMut < Target = MachineState >"), "file": F_U, "emit_name": "Unifier_unify_partial_string",
         "rewrites": ["strip_head", "name_return", ("index_to_method", "machine_st.heap", "at")] + MAC,
         "wrap_pre": "impl MachineState {\n", "wrap_post": "}\n"},
        # ---- string iteration (src/machine/partial_string.rs): one step of HeapPStrIter. R7: of the iterator only the heap
        # reference is read by step()
        {"block": "enum", "header": r"enum PStrIteratee", "file": "src/machine/partial_string.rs", "rewrites": ["strip_type_head"]},
        {"block": "struct", "header": r"struct PStrIterStep", "file": "src/machine/partial_string.rs", "rewrites": ["strip_type_head"]},
        {"fn": "step", "impl": r"impl < 'a > HeapPStrIter < 'a >", "file": "src/machine/partial_string.rs", "emit_name": "HeapPStrIter_step",
         "rewrites": ["strip_head", "name_return", ("index_to_method", "self.heap", "at"),
                      ("macro_fn", "debug_assert", "debug_assert_shim", "R18", [1])] + MAC,
         "wrap_pre": "impl<'a> HeapPStrIter<'a> {\n#[verifier::exec_allows_no_decreases_clause]\n", "wrap_post": "}\n"},
    ],
}
