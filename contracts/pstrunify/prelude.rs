// ===== Shim prelude of unit pstrunify (TRUSTED). =====
global size_of usize == 8;
#[derive(Clone, Copy)]
pub struct HeapCellValue { pub bits: u64 }
impl HeapCellValue {
    pub uninterp spec fn tag(&self) -> HeapCellValueTag;
    pub uninterp spec fn val(&self) -> u64;
    #[verifier::external_body] pub fn get_tag(self) -> (r: HeapCellValueTag) ensures r == self.tag() { unimplemented!() }
    // (cell payloads have 56 bits)
    #[verifier::external_body] pub fn get_value(self) -> (r: u64) ensures r == self.val(), r < 0x100_0000_0000_0000 { unimplemented!() }
}
impl Clone for HeapCellValueTag { #[verifier::external_body] fn clone(&self) -> (r: Self) ensures r == *self { unimplemented!() } }
impl Copy for HeapCellValueTag {}
impl Clone for PStrContinuable { #[verifier::external_body] fn clone(&self) -> (r: Self) ensures r == *self { unimplemented!() } }
impl Copy for PStrContinuable {}
#[derive(Clone, Copy)]
pub struct Atom { pub index: u64 }
impl vstd::std_specs::cmp::PartialEqSpecImpl for Atom {
    open spec fn obeys_eq_spec() -> bool { true }
    open spec fn eq_spec(&self, other: &Atom) -> bool { self.index == other.index }
}
impl PartialEq for Atom { fn eq(&self, other: &Atom) -> (r: bool) ensures r == (self.index == other.index) { self.index == other.index } }
pub uninterp spec fn atom_index(s: Seq<char>) -> u64;
#[verifier::external_body] pub fn atom_of(s: &str) -> (r: Atom) ensures r.index == atom_index(s@) { unimplemented!() }
// variable references (src/machine/machine_indices.rs Ref): which store and which index
pub enum Ref { Heap(usize), Attr(usize), Stack(usize) }
impl Ref {
    pub fn heap_cell(h: usize) -> (r: Ref) ensures r == Ref::Heap(h) { Ref::Heap(h) }
    pub fn attr_var(h: usize) -> (r: Ref) ensures r == Ref::Attr(h) { Ref::Attr(h) }
    pub fn stack_cell(h: usize) -> (r: Ref) ensures r == Ref::Stack(h) { Ref::Stack(h) }
}
// cell constructors: uninterpreted functions of their payload
pub uninterp spec fn heap_loc_cell(i: int) -> HeapCellValue;
pub uninterp spec fn pstr_loc_cell(i: int) -> HeapCellValue;
pub uninterp spec fn char_cell(c: char) -> HeapCellValue;
#[verifier::external_body] pub fn heap_loc_as_cell(i: usize) -> (r: HeapCellValue) ensures r == heap_loc_cell(i as int) { unimplemented!() }
#[verifier::external_body] pub fn pstr_loc_as_cell(i: usize) -> (r: HeapCellValue) ensures r == pstr_loc_cell(i as int) { unimplemented!() }
#[verifier::external_body] pub fn char_as_cell(c: char) -> (r: HeapCellValue) ensures r == char_cell(c) { unimplemented!() }
pub struct AtomCell { pub name: Atom, pub arity: usize }
impl AtomCell { pub fn get_name_and_arity(&self) -> (r: (Atom, usize)) ensures r == (self.name, self.arity) { (self.name, self.arity) } }
pub uninterp spec fn functor_of(c: HeapCellValue) -> AtomCell;
#[verifier::external_body] pub fn cell_as_atom_cell(c: HeapCellValue) -> (r: AtomCell) ensures r == functor_of(c) { unimplemented!() }

pub open spec fn small_idx(i: int) -> bool { 0 <= i < 0x100_0000_0000_0000 }
pub open spec fn small_cont(c: PStrContinuable) -> bool { match c { PStrContinuable::PStrOffset(o) => small_idx(o as int), PStrContinuable::TailIndex(t) => small_idx(t as int) } }
#[verifier::external_body]
pub struct Heap { _p: usize }
impl Heap {
    pub uninterp spec fn cells(&self) -> Seq<HeapCellValue>;
    // head character and tail of the packed string at byte `loc` (contract proved in unit pstrcmp)
    pub uninterp spec fn head_char(&self, loc: int) -> char;
    pub uninterp spec fn tail_cell(&self, loc: int) -> HeapCellValue;
    #[verifier::external_body]
    pub fn last_str_char_and_tail(&self, loc: usize) -> (r: (char, HeapCellValue)) ensures r.0 == self.head_char(loc as int), r.1 == self.tail_cell(loc as int) { unimplemented!() }
    // Index<usize>: panics out of range
    #[verifier::external_body]
    pub fn at(&self, i: usize) -> (r: HeapCellValue) ensures i < self.cells().len(), r == self.cells()[i as int] { unimplemented!() }
    pub uninterp spec fn seg_cmp(&self, l1: int, l2: int) -> PStrSegmentCmpResult;
    #[verifier::external_body]
    pub fn compare_pstr_segments(&self, l1: usize, l2: usize) -> (r: PStrSegmentCmpResult)
        ensures r == self.seg_cmp(l1 as int, l2 as int),
                // offsets and tail indices lie inside the heap, whose cell values have 56 bits
                r matches PStrSegmentCmpResult::Continue(a, b) ==> small_cont(a) && small_cont(b) { unimplemented!() }
}
pub struct MachineState {
    pub heap: Heap,
    pub pdl: Vec<(HeapCellValue, HeapCellValue)>,
    pub fail: bool,
    pub bindings: Ghost<Seq<(Ref, HeapCellValue)>>,
}
impl MachineState {
    // Self::bind(self, r, value): recorded, not modelled
    #[verifier::external_body]
    pub fn bind(m: &mut MachineState, r: Ref, v: HeapCellValue)
        ensures final(m).bindings@ == old(m).bindings@.push((r, v)), final(m).pdl@ == old(m).pdl@, final(m).fail == old(m).fail, final(m).heap == old(m).heap { unimplemented!() }
    // `self.deref_mut()` of the Unifier trait object
    pub fn deref_mut(&mut self) -> (r: &mut MachineState) ensures *r == *old(self), *final(self) == *final(r) { self }
}

// ---- string iteration
pub struct HeapPStrIter<'a> { pub heap: &'a Heap }
#[verifier::external_body] pub struct StrLen { _p: usize }
impl StrLen { pub uninterp spec fn n(&self) -> int; #[verifier::external_body] pub fn len(&self) -> (r: usize) ensures r == self.n() { unimplemented!() } }
pub struct HeapStringScan { pub string: StrLen, pub tail_idx: usize }
impl Heap {
    // text length and tail cell of the packed string at byte `loc` (unit heap / pstrcmp prove the layout)
    pub uninterp spec fn str_len(&self, loc: int) -> int;
    pub uninterp spec fn scan_tail(&self, loc: int) -> int;
    #[verifier::external_body]
    pub fn scan_slice_to_str(&self, loc: usize) -> (r: HeapStringScan) ensures r.string.n() == self.str_len(loc as int), r.tail_idx == self.scan_tail(loc as int) { unimplemented!() }
}
// dereferencing (binding chains) and the character an atom cell stands for
pub uninterp spec fn resolve(heap: &Heap, c: HeapCellValue) -> HeapCellValue;
#[verifier::external_body] pub fn heap_bound_deref(heap: &Heap, c: HeapCellValue) -> (r: HeapCellValue) ensures r == deref_of(heap, c) { unimplemented!() }
pub uninterp spec fn deref_of(heap: &Heap, c: HeapCellValue) -> HeapCellValue;
#[verifier::external_body] pub fn heap_bound_store(heap: &Heap, c: HeapCellValue) -> (r: HeapCellValue) ensures r == store_of(heap, c) { unimplemented!() }
pub uninterp spec fn store_of(heap: &Heap, c: HeapCellValue) -> HeapCellValue;
pub uninterp spec fn char_of(c: HeapCellValue) -> Option<char>;
impl HeapCellValue { #[verifier::external_body] pub fn as_char(self) -> (r: Option<char>) ensures r == char_of(self) { unimplemented!() } }
#[verifier::external_body] pub fn debug_assert_shim(b: bool) { unimplemented!() }
