// ===== Shim prelude of unit pstrcmp (TRUSTED). =====
// Byte slices carry a ghost ADDRESS (`slice_addr`): an uninterpreted function of the slice value,
// advanced by sub-slicing. The heap base is 8-byte aligned (unit heap, Heap::grow/with_cell_capacity:
// alloc with align 8), so address arithmetic modulo 8 is heap-offset arithmetic modulo 8.
global size_of usize == 8;
global size_of HeapCellValue == 8;
#[derive(Clone, Copy)]
pub struct HeapCellValue { pub bits: u64 }
pub const ALIGN: usize = 8;   // const ALIGN = Heap::heap_cell_alignment(), proved == 8 in unit heap

pub uninterp spec fn slice_addr(s: &[u8]) -> int;

pub struct BytePtr { pub a: Ghost<int> }
impl BytePtr {
    // <*const u8>::add
    #[verifier::external_body]
    pub fn add(self, n: usize) -> (r: BytePtr) ensures r.a@ == self.a@ + n { unimplemented!() }
    // <*const u8>::addr
    #[verifier::external_body]
    pub fn addr(self) -> (r: usize) ensures r == self.a@ { unimplemented!() }
    // <*const u8>::align_offset for a power-of-two alignment: bytes up to the next aligned address
    // (std documents that it may return usize::MAX when it "cannot" align; for u8 pointers at run
    // time it always can -- ASSUMED)
    #[verifier::external_body]
    pub fn align_offset(self, align: usize) -> (r: usize) requires align == 8
        ensures r == (8 - self.a@ % 8) % 8 { unimplemented!() }
}
#[verifier::external_body]
pub fn slice_as_ptr(s: &[u8]) -> (r: BytePtr) ensures r.a@ == slice_addr(s), 0 <= slice_addr(s), slice_addr(s) + s@.len() + 16 <= usize::MAX { unimplemented!() }

#[verifier::external_body]
pub struct StrRef { _p: usize }
impl StrRef { pub uninterp spec fn n(&self) -> int; }
pub struct HeapStringScan { pub string: StrRef, pub tail_idx: usize }

pub open spec fn first_zero(s: Seq<u8>) -> int decreases s.len() {
    if s.len() == 0 { 0 } else if s[0] == 0 { 0 } else { 1 + first_zero(s.skip(1)) }
}
// `slice.iter().position(|b| *b == 0).unwrap_or(slice.len())`
#[verifier::external_body]
pub fn first_zero_or_len(s: &[u8]) -> (r: usize) ensures r == first_zero(s@), r <= s@.len() { unimplemented!() }
#[verifier::external_body]
pub fn slice_prefix<'a>(s: &'a [u8], n: usize) -> (r: &'a [u8]) requires n <= s@.len() ensures r@ == s@.take(n as int), slice_addr(r) == slice_addr(s) { unimplemented!() }
// `&s[n..]`
#[verifier::external_body]
pub fn slice_from<'a>(s: &'a [u8], n: usize) -> (r: &'a [u8]) requires n <= s@.len() ensures r@ == s@.skip(n as int), slice_addr(r) == slice_addr(s) + n { unimplemented!() }
#[verifier::external_body]
pub fn str_from_bytes(s: &[u8]) -> (r: StrRef) ensures r.n() == s@.len() { unimplemented!() }
// `s.get(i).cloned().unwrap_or(0)`
#[verifier::external_body]
pub fn byte_at_or_zero(s: &[u8], i: usize) -> (r: u8) ensures r == (if i < s@.len() { s@[i as int] } else { 0u8 }) { unimplemented!() }

// first index (below both lengths) where the bytes differ or one of them is zero; the shorter length if none
pub open spec fn fdz(a: Seq<u8>, b: Seq<u8>) -> int decreases a.len() {
    if a.len() == 0 || b.len() == 0 { 0 } else if a[0] != b[0] || a[0] == 0 || b[0] == 0 { 0 } else { 1 + fdz(a.skip(1), b.skip(1)) }
}
pub open spec fn min_len(a: Seq<u8>, b: Seq<u8>) -> int { if a.len() <= b.len() { a.len() as int } else { b.len() as int } }
// `a.iter().zip(b.iter()).position(|(b1, b2)| b1 != b2 || *b1 == 0 || *b2 == 0)`
#[verifier::external_body]
pub fn first_differ_or_zero(a: &[u8], b: &[u8]) -> (r: Option<usize>)
    ensures
        0 <= fdz(a@, b@) <= min_len(a@, b@),
        match r {
            Some(p) => p == fdz(a@, b@) && p < min_len(a@, b@) && (a@[p as int] != b@[p as int] || a@[p as int] == 0 || b@[p as int] == 0),
            None => fdz(a@, b@) == min_len(a@, b@),
        }
{ unimplemented!() }

// UNVERIFIED part of compare_pstr_slices: the utf8_chunks()/zip/cmp loop over the two byte windows.
// Its result is an uninterpreted order; what IS required of the caller is that the windows start at
// the same index and cover every byte of the character containing the first differing byte p
// (a UTF-8 character has at most 4 bytes: it starts no earlier than p-3 and ends before p+4).
pub uninterp spec fn window_less(a: &[u8], ra: core::ops::Range<usize>, b: &[u8], rb: core::ops::Range<usize>) -> bool;
pub open spec fn covers(len: int, start: int, end: int, p: int) -> bool {
    0 <= start <= end <= len && start <= p && (p >= 3 ==> start <= p - 3) && (p + 4 <= len ==> end >= p + 4) && (p + 4 > len ==> end == len)
}
#[verifier::external_body]
pub fn utf8_window_order(a: &[u8], ra: core::ops::Range<usize>, b: &[u8], rb: core::ops::Range<usize>) -> (r: PStrSegmentCmpResult)
    requires
        ra.start == rb.start,
        covers(a@.len() as int, ra.start as int, ra.end as int, fdz(a@, b@)),
        covers(b@.len() as int, rb.start as int, rb.end as int, fdz(a@, b@)),
        fdz(a@, b@) < min_len(a@, b@), a@[fdz(a@, b@)] != 0, b@[fdz(a@, b@)] != 0,
    ensures r == (if window_less(a, ra, b, rb) { PStrSegmentCmpResult::Less } else { PStrSegmentCmpResult::Greater })
{ unimplemented!() }

#[verifier::external_body]
pub fn debug_assert_shim(b: bool) { unimplemented!() }
// heap_index!(i): checked_mul, panicking on overflow: a returned value is exact (R5)
#[verifier::external_body]
pub fn heap_index(i: usize) -> (r: usize) ensures r == 8 * i { unimplemented!() }
pub assume_specification [<usize>::next_multiple_of] (a: usize, b: usize) -> (r: usize)
    requires b > 0, a + b - 1 <= usize::MAX
    ensures r >= a, r - a < b, r % b == 0;

// ---- the heap as a byte sequence at an 8-aligned base (Heap::grow / with_cell_capacity allocate with align 8)
#[verifier::external_body]
pub struct Heap { _p: usize }
impl Heap {
    pub uninterp spec fn bytes(&self) -> Seq<u8>;
    pub uninterp spec fn base(&self) -> int;
    // `slice::from_raw_parts(self.inner.ptr.add(loc), self.inner.byte_len - loc)`
    #[verifier::external_body]
    pub fn bytes_from(&self, loc: usize) -> (r: &[u8])
        requires loc <= self.bytes().len()
        ensures r@ == self.bytes().skip(loc as int), slice_addr(r) == self.base() + loc, self.base() % 8 == 0, self.base() >= 0,
                self.base() + self.bytes().len() + 16 <= usize::MAX { unimplemented!() }
    // Heap::pstr_tail_idx, by its contract (proved against the real body in unit heap: Heap_pstr_tail_idx)
    #[verifier::external_body]
    pub fn pstr_tail_idx(z: usize) -> (r: usize)
        requires z < usize::MAX
        ensures r == z as int / 8 + (if (z as int + 1) % 8 == 0 { 2int } else { 1int }) { unimplemented!() }
}
// &str over a byte slice and its character iterator (TRUSTED UTF-8 facts: a character occupies 1..4 bytes,
// NUL is the single byte 0, no other character starts with byte 0)
#[verifier::external_body] pub struct StrS { _p: usize }
impl StrS { pub uninterp spec fn b(&self) -> Seq<u8>; }
#[verifier::external_body] pub fn str_of_bytes(s: &[u8]) -> (r: StrS) ensures r.b() == s@ { unimplemented!() }
pub uninterp spec fn char_len_at(b: Seq<u8>, pos: int) -> int;     // byte length of the character starting at pos
pub uninterp spec fn char_at(b: Seq<u8>, pos: int) -> char;        // that character
pub uninterp spec fn clen(c: char) -> int;                          // char::len_utf8
#[verifier::external_body] pub struct CharsS { _p: usize }
impl StrS {
    #[verifier::external_body] pub fn chars(&self) -> (r: CharsS) ensures r.b() == self.b(), r.pos() == 0 { unimplemented!() }
}
impl CharsS {
    pub uninterp spec fn b(&self) -> Seq<u8>;
    pub uninterp spec fn pos(&self) -> int;
    #[verifier::external_body]
    pub fn next(&mut self) -> (r: Option<char>)
        requires 0 <= old(self).pos() <= old(self).b().len()
        ensures
            final(self).b() == old(self).b(),
            old(self).pos() == old(self).b().len() ==> r is None && final(self).pos() == old(self).pos(),
            old(self).pos() < old(self).b().len() ==> (
                r == Some(char_at(old(self).b(), old(self).pos()))
                && final(self).pos() == old(self).pos() + char_len_at(old(self).b(), old(self).pos())
                && 1 <= char_len_at(old(self).b(), old(self).pos()) <= 4
                && final(self).pos() <= old(self).b().len()
                && clen(char_at(old(self).b(), old(self).pos())) == char_len_at(old(self).b(), old(self).pos())
                && ((char_at(old(self).b(), old(self).pos()) == '\0') == (old(self).b()[old(self).pos()] == 0))
                && (old(self).b()[old(self).pos()] == 0 ==> char_len_at(old(self).b(), old(self).pos()) == 1)
                // continuation bytes are >= 0x80
                && (forall|j: int| old(self).pos() < j < final(self).pos() ==> old(self).b()[j] != 0)),
    { unimplemented!() }
}
pub trait CharLen { fn len_utf8_u(self) -> usize; }
impl CharLen for char { #[verifier::external_body] fn len_utf8_u(self) -> (r: usize) ensures r == clen(self) { unimplemented!() } }
pub trait UnwrapAbort<T> { fn unwrap_abort(self) -> T; }
impl<T> UnwrapAbort<T> for Option<T> { #[verifier::external_body] fn unwrap_abort(self) -> (r: T) ensures self == Some(r) { unimplemented!() } }
// cell constructors as uninterpreted functions of the index
pub uninterp spec fn heap_loc(i: int) -> HeapCellValue;
pub uninterp spec fn pstr_loc(i: int) -> HeapCellValue;
#[verifier::external_body] pub fn heap_loc_as_cell(i: usize) -> (r: HeapCellValue) ensures r == heap_loc(i as int) { unimplemented!() }
#[verifier::external_body] pub fn pstr_loc_as_cell(i: usize) -> (r: HeapCellValue) ensures r == pstr_loc(i as int) { unimplemented!() }
