F_H = "src/machine/heap.rs"
F_M = "src/macros.rs"

STD = ["strip_head", "name_return",
       ("macro_fn", "debug_assert", "debug_assert_shim", "R18", [1]),
       ("macro_fn", "heap_index", "heap_index", "R5"),
       ("expand_macro", "cell_index", F_M, "R5"),
       ("replace", "std::mem::size_of::<HeapCellValue>()", "8usize", "R7", False)]

UNIT = {
    "name": "pstrcmp",
    "verus_args": ["--rlimit", "40"],
    "prelude": ["prelude.rs"],
    "specs": ["pstrcmp.spec"],
    "items": [
        {"block": "enum", "header": r"enum PStrContinuable", "file": F_H, "rewrites": ["strip_type_head"]},
        {"block": "enum", "header": r"enum PStrSegmentCmpResult", "file": F_H, "rewrites": ["strip_type_head"]},
        {"fn": "pstr_sentinel_length", "file": F_H, "rewrites": STD},
        {"fn": "scan_slice_to_str", "file": F_H, "rewrites": STD + [
            # R6: std iterator chain (with its closure) -> named shim with the same meaning
            ("replace", "heap_slice .iter() .position(|b| *b == 0u8) .unwrap_or(heap_slice.len())", "first_zero_or_len(heap_slice)", "R6"),
            # R7: raw pointer of a slice -> ghost-address shim
            ("replace", "unsafe { heap_slice.as_ptr().add(string_len) }", "slice_as_ptr(heap_slice).add(string_len)", "R7"),
            ("replace", "&heap_slice[..string_len]", "slice_prefix(heap_slice, string_len)", "R6"),
            ("replace", "unsafe { std::str::from_utf8_unchecked(str_slice) }", "str_from_bytes(str_slice)", "R6"),
            ("replace", "HeapStringScan<'_>", "HeapStringScan", "R7"),
            ("replace", "unsafe fn", "fn", "R2")]},
        {"fn": "compare_pstr_slices", "file": F_H, "rewrites": STD + [
            ("replace", "!slice1.is_empty() && !slice2.is_empty()", "slice1.len() != 0 && slice2.len() != 0", "R6"),
            ("replace", "unsafe { scan_slice_to_str(slice).tail_idx }", "scan_slice_to_str(slice).tail_idx", "R2"),
            ("replace", "use std::cmp::Ordering;", "", "R2"),
            ("replace", "slice1.get(pos).cloned().unwrap_or(0)", "byte_at_or_zero(slice1, pos)", "R6", False),
            ("replace", "slice2.get(pos).cloned().unwrap_or(0)", "byte_at_or_zero(slice2, pos)", "R6", False),
            ("replace", "&slice1[pos..]", "slice_from(slice1, pos)", "R6", False),
            ("replace", "&slice2[pos..]", "slice_from(slice2, pos)", "R6", False),
            ("replace", "slice1.as_ptr().align_offset(ALIGN)", "slice_as_ptr(slice1).align_offset(ALIGN)", "R7", False),
            ("replace", "slice2.as_ptr().align_offset(ALIGN)", "slice_as_ptr(slice2).align_offset(ALIGN)", "R7", False),
            # R6: the code-point comparison of the two 7-byte windows (utf8_chunks/zip/cmp) is left
            # UNVERIFIED: its result is an uninterpreted order of the two windows
            ("replace", "let chars1_iter = slice1[slice1_range].utf8_chunks(); let chars2_iter = slice2[slice2_range].utf8_chunks(); for (chunk1, chunk2) in chars1_iter.zip(chars2_iter) { let result = chunk1.valid().cmp(chunk2.valid()); if result == Ordering::Greater { return PStrSegmentCmpResult::Greater; } else if result == Ordering::Less { return PStrSegmentCmpResult::Less; } } unreachable!()",
             "return utf8_window_order(slice1, slice1_range, slice2, slice2_range);", "R6"),
            ("replace", "match slice1 .iter() .zip(slice2.iter()) .position(|(b1, b2)| b1 != b2 || *b1 == 0 || *b2 == 0)", "match first_differ_or_zero(slice1, slice2)", "R6"),
        ]},
        # R7: the heap is seen as its byte sequence at an 8-aligned base address; the two raw-pointer lines become one
        # shim that yields the slice from `loc` to the end of the heap
        {"fn": "last_str_char_and_tail", "impl": r"impl Heap", "file": F_H, "emit_name": "Heap_last_str_char_and_tail",
         "rewrites": STD + [
            ("replace", "let char_ptr = self.inner.ptr.add(loc); let slice = std::slice::from_raw_parts(char_ptr, self.inner.byte_len - loc);", "let slice = self.bytes_from(loc);", "R7"),
            ("replace", "std::str::from_utf8_unchecked(slice)", "str_of_bytes(slice)", "R6"),
            ("rename", "len_utf8", "len_utf8_u", "R13"),
            ("rename", "unwrap", "unwrap_abort", "R19"),
            ("macro_fn", "heap_loc_as_cell", "heap_loc_as_cell", "R5"),
            ("macro_fn", "pstr_loc_as_cell", "pstr_loc_as_cell", "R5"),
            ("replace", "unsafe {", "{", "R2")],
         "wrap_pre": "impl Heap {\n", "wrap_post": "}\n"},
    ],
}
