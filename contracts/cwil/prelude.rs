// ===== Shim prelude for the inference counter (C40). TRUSTED parts are marked. =====
global size_of usize == 8;

// the part of MachineState that increment_call_count touches; everything else is outside this unit
pub struct Ball { pub stub: Vec<u64> }
pub struct MachineState { pub cwil: CWIL, pub ball: Ball, pub block: usize, pub b: usize, pub unifs: Ghost<Seq<Unif>> }
pub struct Machine { pub machine_st: MachineState }
impl Machine {
    pub uninterp spec fn block_reg(&self) -> usize;
    // `unsafe { self.deref_register(1).to_fixnum_or_cut_point_unchecked() }.get_num() as usize`
    #[verifier::external_body] pub fn block_register(&self) -> (r: usize) ensures r == self.block_reg() { unimplemented!() }
}
impl MachineState {
    // TRUSTED frame: unwinding the stack does not touch the inference counter or the saved block
    #[verifier::external_body]
    pub fn unwind_stack(&mut self) ensures final(self).cwil == old(self).cwil, final(self).block == old(self).block, final(self).ball == old(self).ball { unimplemented!() }
}
// u128::strict_add aborts (panics) on overflow instead of wrapping: a returned value is the exact sum
pub assume_specification [<u128>::strict_add] (a: u128, b: u128) -> (r: u128) ensures r == a + b;

// ---- register decoding for the inference-limit builtins
#[derive(Clone, Copy)] pub struct HeapCellValue { pub bits: u64 }
#[derive(Clone, Copy)] pub struct Fixnum { pub n: i64 }
impl Fixnum { pub fn get_num(self) -> (r: i64) ensures r == self.n { self.n } }
pub struct OutOfBounds;
impl Fixnum {
    // 56-bit small integers
    #[verifier::external_body] pub fn build_with_checked(n: u128) -> (r: Result<Fixnum, OutOfBounds>)
        ensures n <= 0x7f_ffff_ffff_ffff ==> (r matches Ok(f) && f.n == n), n > 0x7f_ffff_ffff_ffff ==> r is Err { unimplemented!() }
}
#[verifier::external_body] pub struct BigPtr { _p: usize }
impl BigPtr { pub uninterp spec fn v(&self) -> int; }
pub enum Number { Fixnum(Fixnum), Integer(BigPtr), Float(u64), Rational(u64) }
pub uninterp spec fn cell_number(c: HeapCellValue) -> Option<Number>;
#[verifier::external_body] pub fn number_of_cell(c: HeapCellValue) -> (r: Result<Number, ()>) ensures match cell_number(c) { Some(n) => r == Ok::<Number, ()>(n), None => r is Err } { unimplemented!() }
// u128::try_from(&Integer).unwrap(): panics unless 0 <= v < 2^128
#[verifier::external_body] pub fn u128_of_integer(n: BigPtr) -> (r: u128) ensures r == n.v() { unimplemented!() }
#[verifier::external_body] pub fn big_of_u128(n: u128) -> (r: BigPtr) ensures r.v() == n { unimplemented!() }
pub uninterp spec fn cell_block(c: HeapCellValue) -> usize;
#[verifier::external_body] pub fn block_of_cell(c: HeapCellValue) -> (r: usize) ensures r == cell_block(c) { unimplemented!() }
pub struct MachineStub;
pub struct MachineError;
pub struct Atom;
#[verifier::external_body] pub fn atom_of(s: &str) -> Atom { unimplemented!() }
#[verifier::external_body] pub fn functor_stub(a: Atom, n: usize) -> MachineStub { unimplemented!() }
pub enum ValidType { Integer }
pub type CallResult = Result<(), MachineStub>;
// what was unified with what (ghost)
pub enum Unif { Small(i64, HeapCellValue), Big(int, HeapCellValue), Count(u128, HeapCellValue) }
impl Machine {
    pub uninterp spec fn reg(&self, i: usize) -> HeapCellValue;
    #[verifier::external_body] pub fn deref_register(&self, i: usize) -> (r: HeapCellValue) ensures r == self.reg(i) { unimplemented!() }
    // Machine::inference_count (unifies the count with the variable, as a small or big integer): logged
    #[verifier::external_body] pub fn inference_count(&mut self, v: HeapCellValue, count: u128)
        ensures final(self).machine_st.unifs@ == old(self).machine_st.unifs@.push(Unif::Count(count, v)), final(self).machine_st.cwil == old(self).machine_st.cwil,
                forall|i: usize| final(self).reg(i) == old(self).reg(i) { unimplemented!() }
}
impl MachineState {
    #[verifier::external_body] pub fn type_error(&mut self, t: ValidType, c: HeapCellValue) -> (r: MachineError) ensures *final(self) == *old(self) { unimplemented!() }
    #[verifier::external_body] pub fn error_form(&mut self, e: MachineError, s: MachineStub) -> (r: MachineStub) ensures *final(self) == *old(self) { unimplemented!() }
    #[verifier::external_body] pub fn unify_fixnum(&mut self, f: Fixnum, c: HeapCellValue)
        ensures final(self).unifs@ == old(self).unifs@.push(Unif::Small(f.n, c)), final(self).cwil == old(self).cwil, final(self).b == old(self).b, final(self).block == old(self).block { unimplemented!() }
    #[verifier::external_body] pub fn unify_big_int(&mut self, n: BigPtr, c: HeapCellValue)
        ensures final(self).unifs@ == old(self).unifs@.push(Unif::Big(n.v(), c)), final(self).cwil == old(self).cwil, final(self).b == old(self).b, final(self).block == old(self).block { unimplemented!() }
}
