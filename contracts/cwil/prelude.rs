// ===== Shim prelude for the inference counter (C40). TRUSTED parts are marked. =====
global size_of usize == 8;

// the part of MachineState that increment_call_count touches; everything else is outside this unit
pub struct Ball { pub stub: Vec<u64> }
pub struct MachineState { pub cwil: CWIL, pub ball: Ball, pub block: usize, pub b: usize }
pub struct Machine { pub machine_st: MachineState }
impl Machine {
    pub uninterp spec fn block_reg(&self) -> usize;
    // `unsafe { self.deref_register(1).to_fixnum_or_cut_point_unchecked() }.get_num() as usize`
    #[verifier::external_body] pub fn block_register(&self) -> (r: usize) ensures r == self.block_reg() { unimplemented!() }
}
impl MachineState {
    // TRUSTED frame: unwinding the stack does not touch the inference counter or the saved block
    #[verifier::external_body]
    pub fn unwind_stack(&mut self) ensures final(self).cwil == old(self).cwil, final(self).block == old(self).block, final(self).ball == old(self).ball { unimplemented!() }
}
// u128::strict_add aborts (panics) on overflow instead of wrapping: a returned value is the exact sum
pub assume_specification [<u128>::strict_add] (a: u128, b: u128) -> (r: u128) ensures r == a + b;
