F_MS = "src/machine/machine_state.rs"
STD = ["strip_head", "name_return", "iflet_ref_patterns"]

def m(name, ret=True):
    return {"fn": name, "impl": r"impl CWIL", "file": F_MS, "emit_name": "CWIL_" + name, "rewrites": STD,
            "wrap_pre": "impl CWIL {\n", "wrap_post": "}\n"}

UNIT = {
    "name": "cwil",
    "prelude": ["prelude.rs"],
    "specs": ["cwil.spec"],
    "items": [
        {"block": "struct", "header": r"struct CWIL", "file": F_MS, "rewrites": ["strip_type_head"]},
        m("new"), m("add_limit"), m("remove_limit"), m("reset"), m("is_empty"),
        {"fn": "increment_call_count", "impl": r"impl MachineState", "file": F_MS, "emit_name": "increment_call_count", "rewrites": STD,
         "wrap_pre": "impl MachineState {\n", "wrap_post": "}\n"},
    ],
}
