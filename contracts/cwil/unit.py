F_MS = "src/machine/machine_state.rs"
STD = ["strip_head", "name_return", "iflet_ref_patterns"]

def m(name, ret=True):
    return {"fn": name, "impl": r"impl CWIL", "file": F_MS, "emit_name": "CWIL_" + name, "rewrites": STD,
            "wrap_pre": "impl CWIL {\n", "wrap_post": "}\n"}

UNIT = {
    "name": "cwil",
    "prelude": ["prelude.rs"],
    "specs": ["cwil.spec"],
    "items": [
        {"block": "struct", "header": r"struct CWIL", "file": F_MS, "rewrites": ["strip_type_head"]},
        m("new"), m("add_limit"), m("remove_limit"), m("reset"), dict(m("is_empty"), optional=True),
        {"fn": "increment_call_count", "impl": r"impl MachineState", "file": F_MS, "emit_name": "increment_call_count", "rewrites": STD,
         "wrap_pre": "impl MachineState {\n", "wrap_post": "}\n"},
        # the last step of call_with_inference_limit/3 (src/machine/system_calls.rs). R7: of the Machine only machine_st is
        # touched; reading the block register is one shim
        {"fn": "remove_call_policy_check", "impl": r"impl Machine", "file": "src/machine/system_calls.rs", "emit_name": "Machine_remove_call_policy_check",
         "rewrites": STD + [("replace", "unsafe { self.deref_register(1).to_fixnum_or_cut_point_unchecked() }.get_num() as usize", "self.block_register()", "R7")],
         "wrap_pre": "impl Machine {\n", "wrap_post": "}\n"},
        # the two builtins behind call_with_inference_limit/3 (src/machine/system_calls.rs): decoding of the registers around
        # add_limit / remove_limit. R7: registers, number decoding and error construction are shims
        {"fn": "install_inference_counter", "impl": r"impl Machine", "file": "src/machine/system_calls.rs", "emit_name": "Machine_install_inference_counter",
         "rewrites": STD + [("replace", "Number::try_from((a2, &self.machine_st.arena.f64_tbl))", "number_of_cell(a2)", "R7"),
                            ("replace", "u128::try_from(&*n).unwrap()", "u128_of_integer(n)", "R7"),
                            ("replace", "unsafe { a1.to_fixnum_or_cut_point_unchecked() }.get_num() as usize", "block_of_cell(a1)", "R7"),
                            ("macro_fn", "atom", "atom_of", "R5")],
         "wrap_pre": "impl Machine {\n", "wrap_post": "}\n"},
        {"fn": "remove_inference_counter", "impl": r"impl Machine", "file": "src/machine/system_calls.rs", "emit_name": "Machine_remove_inference_counter",
         "rewrites": STD + [("replace", "unsafe { a1.to_fixnum_or_cut_point_unchecked() }.get_num() as usize", "block_of_cell(a1)", "R7"),
                            ("replace", "arena_alloc!(Integer::from(count), &mut self.machine_st.arena)", "big_of_u128(count)", "R7")],
         "wrap_pre": "impl Machine {\n", "wrap_post": "}\n"},
    ],
}
