import gen_ops

F_OPS = "src/machine/arithmetic_ops.rs"
F_AR = "src/arithmetic.rs"
F_FORMS = "src/forms.rs"
F_AST = "src/parser/ast.rs"
F_ERR = "src/machine/machine_errors.rs"

STD = ["strip_head", "name_return", "stub_gen",
       ("expand_macro", "fixnum", F_AST, "R5"),
       ("macro_fn", "arena_alloc", "arena_alloc", "R5"),
       ("expand_macro", "try_numeric_result", F_OPS, "R5"), "boxed_error",
       "map_unwrap", "ref_ops", "ref_patterns"]

def fn(name, file=F_OPS, extra=(), **kw):
    d = {"fn": name, "file": file, "rewrites": STD + list(extra)}
    d.update(kw)
    return d

UNIT = {
    "name": "arith",
    "prelude": ["../common/number.rs", gen_ops.gen, "../common/floatk.rs", "../common/stdspecs.rs", "prelude.rs"],
    "specs": ["../common/divmod.spec", "arith.spec"],
    "explicit_use": ["Integer"],
    "broadcast_use": ["ax_number::axiom_fixnum_range", "ax_number::axiom_ubig_nonneg", "ax_number::axiom_q_sign_range", "ax_float::axiom_f_add_comm",
                      "ax_float::axiom_f_mul_comm", "ax_float::axiom_f_of_i64_finite", "ax_float::axiom_f_neg_finite", "ax_float::axiom_f_abs_finite",
                      "vstd::arithmetic::mul::lemma_mul_is_commutative"],
    "items": [
        {"block": "enum", "header": r"enum Number", "file": F_FORMS, "rewrites": ["strip_type_head"]},
        {"block": "enum", "header": r"enum EvalError", "file": F_ERR, "rewrites": ["strip_type_head"]},
        {"block": "enum", "header": r"enum ValidType", "file": F_ERR, "rewrites": ["strip_type_head"]},
        fn("zero_divisor_eval_error", extra=[("replace", "impl Fn() -> MachineStub + 'static", "StubGen", "R4")]),
        fn("undefined_eval_error", extra=[("replace", "impl Fn() -> MachineStub + 'static", "StubGen", "R4")]),
        fn("numerical_type_error", extra=[("replace", "impl Fn() -> MachineStub + 'static", "StubGen", "R4")]),
        fn("rnd_f", file=F_AR, extra=[("replace", "n.get_num() as f64", "i64_as_f64(n.get_num())", "R10")]),
        fn("result_f", file=F_AR),
        fn("float_i_to_f", file=F_AR),
        {"fn": "float_r_to_f", "file": F_AR, "rewrites": ["strip_head", ("name_return", "res"), "ref_ops", "ref_patterns"]},
        fn("add"),
        fn("neg", extra=[("float_neg", ["f"])]),
        fn("abs"),
        fn("sub"),
        fn("mul"),
        {"fn": "arena_from", "impl": r"impl ArenaFrom < i64 > for Number", "file": F_FORMS, "emit_name": "arena_from_i64",
         "rewrites": STD, "wrap_pre": "impl ArenaFrom<i64> for Number {\n", "wrap_post": "}\n"},
        {"fn": "arena_from", "impl": r"impl ArenaFrom < isize > for Number", "file": F_FORMS, "emit_name": "arena_from_isize",
         "rewrites": STD, "wrap_pre": "impl ArenaFrom<isize> for Number {\n", "wrap_post": "}\n"},
        {"fn": "arena_from", "impl": r"impl ArenaFrom < usize > for Number", "file": F_FORMS, "emit_name": "arena_from_usize",
         "rewrites": STD, "wrap_pre": "impl ArenaFrom<usize> for Number {\n", "wrap_post": "}\n"},
        {"fn": "is_zero", "impl": r"impl Number", "file": F_FORMS, "emit_name": "Number_is_zero", "rewrites": STD + [("replace", "f == 0.0 || f == -0.0", "f64_is_zero(f)", "R10")],
         "wrap_pre": "impl Number {\n", "wrap_post": "}\n"},
        {"fn": "is_negative", "impl": r"impl Number", "file": F_FORMS, "emit_name": "Number_is_negative", "rewrites": STD + [("replace", "f.is_sign_negative() && f != -0f64", "f64_is_negative(f)", "R10")],
         "wrap_pre": "impl Number {\n", "wrap_post": "}\n"},
        {"fn": "is_positive", "impl": r"impl Number", "file": F_FORMS, "emit_name": "Number_is_positive", "rewrites": STD,
         "wrap_pre": "impl Number {\n", "wrap_post": "}\n"},
        {"fn": "is_integer", "impl": r"impl Number", "file": F_FORMS, "emit_name": "Number_is_integer", "rewrites": STD,
         "wrap_pre": "impl Number {\n", "wrap_post": "}\n"},
        fn("idiv"),
        fn("remainder"),
        fn("ibig_rem_floor", parent_fn="modulus"),
        fn("modulus", extra=[("hoist_out", "ibig_rem_floor")]),
        fn("int_floor_div"),
        fn("bitwise_complement"),
        fn("and"), fn("or"), fn("xor"),
        fn("shr", extra=[("rename", "int", "int_v", "R13")]), fn("shl", extra=[("rename", "int", "int_v", "R13")]),
        fn("max"), fn("min"),
        fn("gcd"),
        fn("binary_pow", file=F_AR, extra=[("replace", "Integer::ONE", "integer_one()", "R5")]),
        fn("float"),
        fn("unary_float_fn_template"),
        fn("int_pow"),
        fn("sin"), fn("cos"), fn("tan"), fn("log", extra=[("replace", "f64::consts::E", "f64_consts_e()", "R5")]), fn("exp"), fn("asin"), fn("acos"), fn("atan"),
        fn("float_fractional_part"), fn("float_integer_part"), fn("sqrt"), fn("atan2"),
        {"fn": "div", "impl": r"impl Div < Number > for Number", "file": F_AR, "emit_name": "Number_div", "rewrites": STD,
         "wrap_pre": "impl core::ops::Div<Number> for Number {\n    type Output = Result<Number, EvalError>;\n", "wrap_post": "}\n"},
        fn("div"),
        fn("float_pow"), fn("pow"),
        fn("rdiv", extra=[("replace", "Rational::from(", "Rational::from_q(", "R9")]),
        fn("rational_from_number", extra=[("replace", "Rational::try_from(f).ok()", "rational_try_from_f64(f)", "R10"),
                                               ("replace", "impl Fn() -> MachineStub + 'static", "StubGen", "R4")]),
        fn("round", extra=[("replace", "(*f).round()", "f64_round(f.0)", "R10")]),
        {"fn": "rnd_i", "file": F_AR, "rewrites": [("replace", """let f = f.floor();

            const FIXNUM_MIN_TO_F: OrderedFloat<f64> = OrderedFloat(Fixnum::MIN as f64);
            const FIXNUM_MAX_TO_F: OrderedFloat<f64> = OrderedFloat(Fixnum::MAX as f64);

            // `Fixnum::MAX as f64` rounds up to 2^55, which no longer fits: the upper bound is exclusive
            if (FIXNUM_MIN_TO_F..FIXNUM_MAX_TO_F).contains(&f) {
                Ok(Number::Fixnum(
                    // Safety: We checked that the value is in range
                    unsafe { Fixnum::build_with_unchecked(f.into_inner() as i64) },
                ))
            } else {
                Ok(Number::Integer(arena_alloc!(
                    Integer::try_from(classify_float(f.0)?).unwrap_or_else(|_| {
                        unreachable!();
                    }),
                    arena
                )))
            }""", "rnd_i_float_arm(f, arena)", "R10")] + STD},
        fn("floor", extra=["unwrap_or_else"]), fn("ceiling"), fn("truncate"),
        {"fn": "sign", "impl": r"impl Number", "file": F_FORMS, "emit_name": "Number_sign",
         "rewrites": STD + [("replace", "*f == 0.0", "of64_is_zero(*f)", "R10")],
         "wrap_pre": "impl Number {\n", "wrap_post": "}\n"},
    ],
}
