// ---- interface contracts of the float kernels used by the Number-level functions
// (src/arithmetic.rs). Proved on the real functions by engine K (unit float_kernels).
#[verifier::external_body]
pub fn float_fn_to_f(n: i64) -> (r: Result<f64, EvalError>) ensures r == classify_spec(f_of_i64(n as int)) { unimplemented!() }
#[verifier::external_body]
pub fn float_i_to_f(n: &Integer) -> (r: Result<f64, EvalError>) ensures r == classify_spec(f_of_int(n.v())) { unimplemented!() }
#[verifier::external_body]
pub fn float_r_to_f(n: &Rational) -> (r: Result<f64, EvalError>) ensures r == classify_spec(f_of_q(*n)) { unimplemented!() }
#[verifier::external_body]
pub fn add_f(a: f64, b: f64) -> (r: Result<OrderedFloat<f64>, EvalError>)
    ensures match classify_spec(f_add(a, b)) { Ok(z) => r == Ok::<OrderedFloat<f64>, EvalError>(OrderedFloat(z)), Err(e) => r == Err::<OrderedFloat<f64>, EvalError>(e) }
{ unimplemented!() }
#[verifier::external_body]
pub fn mul_f(a: f64, b: f64) -> (r: Result<OrderedFloat<f64>, EvalError>)
    ensures match classify_spec(f_mul(a, b)) { Ok(z) => r == Ok::<OrderedFloat<f64>, EvalError>(OrderedFloat(z)), Err(e) => r == Err::<OrderedFloat<f64>, EvalError>(e) }
{ unimplemented!() }
#[verifier::external_body]
pub fn f64_neg(f: f64) -> (r: f64) ensures r == f_neg(f) { unimplemented!() }
impl OrderedFloat<f64> {
    #[verifier::external_body]
    pub fn abs(self) -> (r: OrderedFloat<f64>) ensures r.0 == f_abs(self.0) { unimplemented!() }
}

pub trait ArenaFrom<T>: Sized { fn arena_from(value: T, arena: &mut Arena) -> Self; }
impl ArenaFrom<Integer> for Number {
    #[verifier::external_body]
    fn arena_from(value: Integer, arena: &mut Arena) -> (r: Number)
        ensures r matches Number::Integer(p) && p.view() == value { unimplemented!() }
}
impl ArenaFrom<Rational> for Number {
    #[verifier::external_body]
    fn arena_from(value: Rational, arena: &mut Arena) -> (r: Number)
        ensures r matches Number::Rational(p) && p.view() == value { unimplemented!() }
}
impl Clone for Number { #[verifier::external_body] fn clone(&self) -> (r: Self) ensures r == *self { unimplemented!() } }
impl Copy for Number {}
impl Clone for EvalError { #[verifier::external_body] fn clone(&self) -> (r: Self) ensures r == *self { unimplemented!() } }
impl Copy for EvalError {}
impl Clone for ValidType { #[verifier::external_body] fn clone(&self) -> (r: Self) ensures r == *self { unimplemented!() } }
impl Copy for ValidType {}

// ---- abstract views of a Number
pub open spec fn is_int(n: Number) -> bool { n is Fixnum || n is Integer }
pub open spec fn is_exact(n: Number) -> bool { !(n is Float) }
pub open spec fn ival(n: Number) -> int {
    match n { Number::Fixnum(f) => f.v(), Number::Integer(p) => p.view().v(), _ => 0 }
}
pub open spec fn rval(n: Number) -> Rational {
    match n { Number::Fixnum(f) => q_of_int(f.v()), Number::Integer(p) => q_of_int(p.view().v()), Number::Rational(p) => p.view(), _ => arbitrary() }
}
// the double an operand is converted to in a float-valued operation (9.1.4.1 rnd_F)
pub open spec fn flt(n: Number) -> f64 {
    match n { Number::Fixnum(f) => f_of_i64(f.v()), Number::Integer(p) => f_of_int(p.view().v()), Number::Rational(p) => f_of_q(p.view()), Number::Float(OrderedFloat(f)) => f }
}
// an integer result is represented as a Fixnum exactly when that is how `fixnum!` / arena_from(i64) normalise
pub open spec fn int_res(x: Number, v: int) -> bool { is_int(x) && ival(x) == v }
