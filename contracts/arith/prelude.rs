// ---- interface contracts of the float kernels used by the Number-level functions
// (src/arithmetic.rs). Proved on the real functions by engine K (unit float_kernels).
#[verifier::external_body]
pub fn float_fn_to_f(n: i64) -> (r: Result<f64, EvalError>) ensures r == classify_spec(f_of_i64(n as int)) { unimplemented!() }
#[verifier::external_body]
pub fn add_f(a: f64, b: f64) -> (r: Result<OrderedFloat<f64>, EvalError>)
    ensures match classify_spec(f_add(a, b)) { Ok(z) => r == Ok::<OrderedFloat<f64>, EvalError>(OrderedFloat(z)), Err(e) => r == Err::<OrderedFloat<f64>, EvalError>(e) }
{ unimplemented!() }
#[verifier::external_body]
pub fn mul_f(a: f64, b: f64) -> (r: Result<OrderedFloat<f64>, EvalError>)
    ensures match classify_spec(f_mul(a, b)) { Ok(z) => r == Ok::<OrderedFloat<f64>, EvalError>(OrderedFloat(z)), Err(e) => r == Err::<OrderedFloat<f64>, EvalError>(e) }
{ unimplemented!() }
#[verifier::external_body]
pub fn f64_neg(f: f64) -> (r: f64) ensures r == f_neg(f) { unimplemented!() }
impl OrderedFloat<f64> {
    #[verifier::external_body]
    pub fn abs(self) -> (r: OrderedFloat<f64>) ensures r.0 == f_abs(self.0) { unimplemented!() }
}

pub trait ArenaFrom<T>: Sized { fn arena_from(value: T, arena: &mut Arena) -> Self; }
impl ArenaFrom<Integer> for Number {
    #[verifier::external_body]
    fn arena_from(value: Integer, arena: &mut Arena) -> (r: Number)
        ensures r matches Number::Integer(p) && p.view() == value { unimplemented!() }
}
impl ArenaFrom<Rational> for Number {
    #[verifier::external_body]
    fn arena_from(value: Rational, arena: &mut Arena) -> (r: Number)
        ensures r matches Number::Rational(p) && p.view() == value { unimplemented!() }
}
impl Clone for Number { #[verifier::external_body] fn clone(&self) -> (r: Self) ensures r == *self { unimplemented!() } }
impl Copy for Number {}
impl Clone for EvalError { #[verifier::external_body] fn clone(&self) -> (r: Self) ensures r == *self { unimplemented!() } }
impl Copy for EvalError {}
impl Clone for ValidType { #[verifier::external_body] fn clone(&self) -> (r: Self) ensures r == *self { unimplemented!() } }
impl Copy for ValidType {}

// ---- abstract views of a Number
pub open spec fn is_int(n: Number) -> bool { n is Fixnum || n is Integer }
pub open spec fn is_exact(n: Number) -> bool { !(n is Float) }
pub open spec fn ival(n: Number) -> int {
    match n { Number::Fixnum(f) => f.v(), Number::Integer(p) => p.view().v(), _ => 0 }
}
pub open spec fn rval(n: Number) -> Rational {
    match n { Number::Fixnum(f) => q_of_int(f.v()), Number::Integer(p) => q_of_int(p.view().v()), Number::Rational(p) => p.view(), _ => arbitrary() }
}
// the double an operand is converted to in a float-valued operation (9.1.4.1 rnd_F)
pub open spec fn flt(n: Number) -> f64 {
    match n { Number::Fixnum(f) => f_of_i64(f.v()), Number::Integer(p) => f_of_int(p.view().v()), Number::Rational(p) => f_of_q(p.view()), Number::Float(OrderedFloat(f)) => f }
}
// an integer result is represented as a Fixnum exactly when that is how `fixnum!` / arena_from(i64) normalise
pub open spec fn int_res(x: Number, v: int) -> bool { is_int(x) && ival(x) == v }

pub open spec fn err_is(r: Result<Number, MachineStubGen>, f: Formal) -> bool { r matches Err(e) && e.formal() == f }
pub open spec fn zero_div() -> Formal { Formal::Eval(EvalError::ZeroDivisor) }
pub open spec fn undefined() -> Formal { Formal::Eval(EvalError::Undefined) }
pub open spec fn must_be_int(n: Number) -> Formal { Formal::Type(ValidType::Integer, n) }
// ISO: the culprit of a type_error(integer, _) raised by a binary integer operation is a non-integer operand
pub open spec fn int_type_err(r: Result<Number, MachineStubGen>, a: Number, b: Number) -> bool {
    (!is_int(a) && err_is(r, must_be_int(a))) || (!is_int(b) && err_is(r, must_be_int(b)))
}

#[verifier::external_body] pub fn f64_is_zero(f: f64) -> (r: bool) ensures r == f_is_zero(f) { unimplemented!() }
#[verifier::external_body] pub fn f64_is_negative(f: f64) -> (r: bool) ensures r == f_lt_zero(f) { unimplemented!() }
impl OrderedFloat<f64> {
    #[verifier::external_body] pub fn is_sign_positive(&self) -> (r: bool) { unimplemented!() }
}
impl Rational {
    #[verifier::external_body] pub fn ref_is_zero(&self) -> (r: bool) ensures r == (q_sign(*self) == 0) { unimplemented!() }
}

// divrem crate: RemFloor for i64 (K: rem_floor_i64 checks the real impl against fmod on the Fixnum domain)
pub trait RemFloor: Sized { fn rem_floor(self, o: Self) -> Self; }
impl RemFloor for i64 {
    #[verifier::external_body]
    fn rem_floor(self, o: i64) -> (r: i64) ensures o != 0 ==> r == fmod(self as int, o as int) { unimplemented!() }
}
// dashu ConstDivisor: reduce(x).residue() is the non-negative residue of x modulo the divisor
#[verifier::external_body] pub struct ConstDivisor { _p: u8 }
#[verifier::external_body] pub struct Reduced<'a> { _p: &'a u8 }
impl ConstDivisor {
    pub uninterp spec fn d(&self) -> int;
    #[verifier::external_body] pub fn new(u: UBig) -> (r: ConstDivisor) ensures r.d() == u.v() { unimplemented!() }
    #[verifier::external_body] pub fn reduce<'a>(&'a self, x: Integer) -> (r: Reduced<'a>) ensures r.ring_d() == self.d(), r.x() == x.v() { unimplemented!() }
}
impl<'a> Reduced<'a> {
    pub uninterp spec fn ring_d(&self) -> int;
    pub uninterp spec fn x(&self) -> int;
    #[verifier::external_body] pub fn residue(self) -> (r: UBig) ensures self.ring_d() > 0 ==> r.v() == self.x() % self.ring_d() { unimplemented!() }
}
// machine two's-complement bit operations agree with the mathematical (infinite two's complement) ones
#[verifier::external_body]
pub proof fn axiom_i64_bitops(a: i64, b: i64)
    ensures (a & b) as int == bitand_int(a as int, b as int), (a | b) as int == bitor_int(a as int, b as int), (a ^ b) as int == bitxor_int(a as int, b as int)
{ }

// ---- shifts
pub open spec fn shift_int(a: int, s: int) -> int {
    if s >= 0 { a * pow_int(2, s as nat) } else { fdiv(a, pow_int(2, (-s) as nat)) }
}
pub open spec fn USIZE_MAX() -> int { 0xffff_ffff_ffff_ffff }
// src/machine/arithmetic_ops.rs checked_signed_shl: proved on the real function by engine K
// (unit shl_kernel, complete over i64 x usize): a returned value is the exact product.
#[verifier::external_body]
pub fn checked_signed_shl(x: i64, shift: usize) -> (r: Option<i64>)
    ensures r matches Some(v) ==> v == x * pow_int(2, shift as nat)
{ unimplemented!() }
impl<'a> core::convert::TryFrom<&'a Integer> for u32 {
    type Error = OutOfBounds;
    #[verifier::external_body]
    fn try_from(n: &'a Integer) -> (r: Result<u32, OutOfBounds>)
        ensures 0 <= n.v() <= u32::MAX ==> r == Ok::<u32, OutOfBounds>(n.v() as u32), !(0 <= n.v() <= u32::MAX) ==> r is Err { unimplemented!() }
}
impl<'a> core::convert::TryFrom<&'a Integer> for usize {
    type Error = OutOfBounds;
    #[verifier::external_body]
    fn try_from(n: &'a Integer) -> (r: Result<usize, OutOfBounds>)
        ensures 0 <= n.v() <= usize::MAX ==> r == Ok::<usize, OutOfBounds>(n.v() as usize), !(0 <= n.v() <= usize::MAX) ==> r is Err { unimplemented!() }
}

// ---- max / min
pub trait PtrVal: Sized { spec fn le(a: Self, b: Self) -> bool; }
impl PtrVal for Integer { open spec fn le(a: Integer, b: Integer) -> bool { a.v() <= b.v() } }
pub uninterp spec fn q_le(a: Rational, b: Rational) -> bool;
impl PtrVal for Rational { open spec fn le(a: Rational, b: Rational) -> bool { q_le(a, b) } }
pub mod cmp {
    use vstd::prelude::*;
    use super::*;
    pub use core::cmp::Ordering;
    // std::cmp::max returns the second argument when the two compare equal, min the first
    #[verifier::external_body]
    pub fn max<T: PtrVal>(a: TypedArenaPtr<T>, b: TypedArenaPtr<T>) -> (r: TypedArenaPtr<T>)
        ensures r == (if T::le(a.view(), b.view()) { b } else { a }) { unimplemented!() }
    #[verifier::external_body]
    pub fn min<T: PtrVal>(a: TypedArenaPtr<T>, b: TypedArenaPtr<T>) -> (r: TypedArenaPtr<T>)
        ensures r == (if T::le(a.view(), b.view()) { a } else { b }) { unimplemented!() }
}
pub uninterp spec fn f_total_cmp(a: f64, b: f64) -> core::cmp::Ordering;   // OrderedFloat's total order (NaN greatest, -0.0 == +0.0)
impl OrderedFloat<f64> {
    #[verifier::external_body]
    pub fn cmp(&self, o: &OrderedFloat<f64>) -> (r: core::cmp::Ordering) ensures r == f_total_cmp(self.0, o.0) { unimplemented!() }
    #[verifier::external_body]
    pub fn signum(&self) -> (r: f64) ensures r == f_signum(self.0) { unimplemented!() }
}
pub uninterp spec fn f_signum(a: f64) -> f64;
#[verifier::external_body] pub fn of64_is_zero(f: OrderedFloat<f64>) -> (r: bool) ensures r == f_is_zero(f.0) { unimplemented!() }

// ---- gcd: Euclid's algorithm on naturals is the reference definition
pub open spec fn gcd_nat(a: nat, b: nat) -> nat decreases b { if b == 0 { a } else { gcd_nat(b, a % b) } }
pub open spec fn gcd_spec(a: int, b: int) -> int { gcd_nat(abs_int(a) as nat, abs_int(b) as nat) as int }
#[verifier::external_body]
pub proof fn axiom_gcd_int_is_euclid(a: int, b: int) ensures gcd_int(a, b) == gcd_spec(a, b) { }
// src/machine/arithmetic_ops.rs isize_gcd (binary GCD): this contract is PROVED in unit `gcd` (same check, C01)
#[verifier::external_body]
pub fn isize_gcd(n1: isize, n2: isize) -> (r: Option<isize>)
    ensures r matches Some(g) ==> g == gcd_spec(n1 as int, n2 as int)
{ unimplemented!() }

// ---- float-valued evaluation (C02)
pub uninterp spec fn f_sin(a: f64) -> f64;  pub uninterp spec fn f_cos(a: f64) -> f64;  pub uninterp spec fn f_tan(a: f64) -> f64;
pub uninterp spec fn f_asin(a: f64) -> f64; pub uninterp spec fn f_acos(a: f64) -> f64; pub uninterp spec fn f_atan(a: f64) -> f64;
pub uninterp spec fn f_exp(a: f64) -> f64;  pub uninterp spec fn f_log(a: f64, base: f64) -> f64; pub uninterp spec fn f_sqrt(a: f64) -> f64;
pub uninterp spec fn f_fract(a: f64) -> f64; pub uninterp spec fn f_trunc(a: f64) -> f64; pub uninterp spec fn f_floor(a: f64) -> f64;
pub uninterp spec fn f_powf(a: f64, b: f64) -> f64; pub uninterp spec fn f_atan2(a: f64, b: f64) -> f64;
pub uninterp spec fn f_ne(a: f64, b: f64) -> bool;     // IEEE `!=`
pub uninterp spec fn f_const_e() -> f64;
pub assume_specification [<f64>::sin] (a: f64) -> (r: f64) ensures r == f_sin(a);
pub assume_specification [<f64>::cos] (a: f64) -> (r: f64) ensures r == f_cos(a);
pub assume_specification [<f64>::tan] (a: f64) -> (r: f64) ensures r == f_tan(a);
pub assume_specification [<f64>::asin] (a: f64) -> (r: f64) ensures r == f_asin(a);
pub assume_specification [<f64>::acos] (a: f64) -> (r: f64) ensures r == f_acos(a);
pub assume_specification [<f64>::atan] (a: f64) -> (r: f64) ensures r == f_atan(a);
pub assume_specification [<f64>::exp] (a: f64) -> (r: f64) ensures r == f_exp(a);
pub assume_specification [<f64>::log] (a: f64, b: f64) -> (r: f64) ensures r == f_log(a, b);
pub assume_specification [<f64>::sqrt] (a: f64) -> (r: f64) ensures r == f_sqrt(a);
pub assume_specification [<f64>::fract] (a: f64) -> (r: f64) ensures r == f_fract(a);
pub assume_specification [<f64>::trunc] (a: f64) -> (r: f64) ensures r == f_trunc(a);
pub assume_specification [<f64>::floor] (a: f64) -> (r: f64) ensures r == f_floor(a);
pub assume_specification [<f64>::powf] (a: f64, b: f64) -> (r: f64) ensures r == f_powf(a, b);
pub assume_specification [<f64>::atan2] (a: f64, b: f64) -> (r: f64) ensures r == f_atan2(a, b);

pub open spec fn ferr(r: Result<f64, MachineStubGen>, f: Formal) -> bool { r matches Err(e) && e.formal() == f }
// result_F (9.1.4.2): the value if finite, else the evaluation error
pub open spec fn lift_f(c: Result<f64, EvalError>, r: Result<f64, MachineStubGen>) -> bool {
    match c { Ok(z) => r == Ok::<f64, MachineStubGen>(z), Err(e) => ferr(r, Formal::Eval(e)) }
}
pub open spec fn unary_res(r: Result<f64, MachineStubGen>, n: Number, g: spec_fn(f64) -> f64) -> bool {
    match classify_spec(flt(n)) { Err(e) => ferr(r, Formal::Eval(e)), Ok(x) => lift_f(classify_spec(g(x)), r) }
}
pub open spec fn is_zero_n(n: Number) -> bool {
    match n { Number::Float(OrderedFloat(f)) => f_is_zero(f), Number::Rational(p) => q_sign(p.view()) == 0, _ => ival(n) == 0 }
}
pub open spec fn is_neg_n(n: Number) -> bool {
    match n { Number::Float(OrderedFloat(f)) => f_lt_zero(f), Number::Rational(p) => q_sign(p.view()) < 0, _ => ival(n) < 0 }
}
// operand conversion in a float-valued binary operation: exact operands are converted and
// classified, float operands are taken as they are
pub open spec fn conv(n: Number) -> Result<f64, EvalError> { if n is Float { Ok(flt(n)) } else { classify_spec(flt(n)) } }
pub open spec fn div_f_spec(a: f64, b: f64) -> Result<f64, EvalError> {
    if f_is_zero(b) { Err(EvalError::ZeroDivisor) } else { classify_spec(f_div(a, b)) }
}
pub open spec fn number_div_spec(a: Number, b: Number) -> Result<f64, EvalError> {
    match conv(a) { Err(e) => Err(e), Ok(x) => match conv(b) { Err(e) => Err(e), Ok(y) => div_f_spec(x, y) } }
}
#[verifier::external_body]
pub fn div_f(a: f64, b: f64) -> (r: Result<OrderedFloat<f64>, EvalError>)
    ensures match div_f_spec(a, b) { Ok(z) => r == Ok::<OrderedFloat<f64>, EvalError>(OrderedFloat(z)), Err(e) => r == Err::<OrderedFloat<f64>, EvalError>(e) }
{ unimplemented!() }
impl vstd::std_specs::ops::DivSpecImpl<Number> for Number {
    open spec fn obeys_div_spec() -> bool { false }
    open spec fn div_req(self, rhs: Number) -> bool { true }
    open spec fn div_spec(self, rhs: Number) -> Result<Number, EvalError> { arbitrary() }
}
// 9.1.3.1 integer rounding. Float arm: engine K (unit float_kernels, harness rnd_i_float); exact arms by reading (listed).
pub uninterp spec fn floor_f(f: f64) -> int;     // floor of a finite double as a mathematical integer
pub open spec fn normalised(x: Number) -> bool { is_int(x) && ((x is Fixnum) == in_fix(ival(x))) }
// the Float arm of rnd_i as one opaque step (its text is replaced as a whole, R10); decided on the real code by
// engine K (float_kernels: rnd_i_float, rnd_i_nonfinite)
#[verifier::external_body]
pub fn rnd_i_float_arm(f: OrderedFloat<f64>, arena: &mut Arena) -> (r: Result<Number, EvalError>)
    ensures match classify_spec(f.0) { Ok(g) => r matches Ok(x) && normalised(x) && ival(x) == floor_f(g), Err(e) => r == Err::<Number, EvalError>(e) }
{ unimplemented!() }
// `f64::consts::E` is rewritten to this nullary shim (R5)
#[verifier::external_body] pub fn f64_consts_e() -> (r: f64) ensures r == f_const_e() { unimplemented!() }

#[verifier::external_body] pub struct Atom { _p: u64 }
impl Clone for Atom { #[verifier::external_body] fn clone(&self) -> (r: Self) ensures r == *self { unimplemented!() } }
impl Copy for Atom {}
pub uninterp spec fn f_round(a: f64) -> f64;
#[verifier::external_body] pub fn f64_round(f: f64) -> (r: f64) ensures r == f_round(f) { unimplemented!() }

// src/arithmetic.rs classify_float (K: classify_float_spec, all 2^64 bit patterns)
#[verifier::external_body]
pub fn classify_float(f: f64) -> (r: Result<f64, EvalError>) ensures r == classify_spec(f) { unimplemented!() }
#[verifier::external_body] pub fn i64_as_f64(n: i64) -> (r: f64) ensures r == f_of_i64(n as int) { unimplemented!() }
// dashu's *approximate* conversions are a different function from the correctly rounded one the
// properties prescribe (nothing is assumed about how close they are)
pub uninterp spec fn f_of_int_fast(i: int) -> f64;
pub uninterp spec fn f_of_q_fast(q: Rational) -> f64;
impl Integer { #[verifier::external_body] pub fn to_f64_fast(&self) -> (r: f64) ensures r == f_of_int_fast(self.v()) { unimplemented!() } }
impl Rational { #[verifier::external_body] pub fn to_f64_fast(&self) -> (r: f64) ensures r == f_of_q_fast(*self) { unimplemented!() } }
#[verifier::external_body] pub struct Approx { _p: u8 }
impl Approx { pub uninterp spec fn val(&self) -> f64;
    #[verifier::external_body] pub fn value(self) -> (r: f64) ensures r == self.val() { unimplemented!() } }
impl Integer { #[verifier::external_body] pub fn to_f64(&self) -> (r: Approx) ensures r.val() == f_of_int(self.v()) { unimplemented!() } }
// dashu-ratio's own conversion; that it is the correctly rounded one (f_of_q) is the separate obligation
// lemma_dashu_ratio_to_f64_correctly_rounded (false for dashu-ratio 0.4.2: a recorded finding)
pub uninterp spec fn f_of_q_dashu(q: Rational) -> f64;
impl Rational { #[verifier::external_body] pub fn to_f64(&self) -> (r: Approx) ensures r.val() == f_of_q_dashu(*self) { unimplemented!() } }
pub assume_specification [<f64>::abs] (a: f64) -> (r: f64) ensures r == f_abs(a);

pub uninterp spec fn q_of_float(f: f64) -> Rational;                  // the exact value of a finite double
// `Rational::try_from(f64).ok()` (dashu): exact for finite doubles, None for NaN and the infinities (ASSUMED)
#[verifier::external_body]
pub fn rational_try_from_f64(f: f64) -> (r: Option<Rational>)
    ensures f_finite(f) ==> r == Some(q_of_float(f)), !f_finite(f) ==> r is None { unimplemented!() }
