// ===== Shim prelude for the temporary-register pool of the Debray allocator (C03: where arithmetic intermediates go) =====
global size_of usize == 8;
#[verifier::external_body] pub struct VarData { _p: usize }
#[verifier::external_body] pub struct BranchStack { _p: usize }
#[verifier::external_body] pub struct OpaqueMap { _p: usize }
#[verifier::external_body] pub struct OpaqueDeque { _p: usize }
// bit-set crate: a set of small integers
#[verifier::external_body] #[verifier::reject_recursive_types(T)] pub struct BitSet<T> { _p: core::marker::PhantomData<T> }
impl BitSet<usize> {
    pub uninterp spec fn view(&self) -> Set<usize>;
    #[verifier::external_body] pub fn contains(&self, i: usize) -> (r: bool) ensures r == self.view().contains(i) { unimplemented!() }
    #[verifier::external_body] pub fn insert(&mut self, i: usize) -> (r: bool) ensures final(self).view() == old(self).view().insert(i), r == !old(self).view().contains(i) { unimplemented!() }
    #[verifier::external_body] pub fn remove(&mut self, i: usize) -> (r: bool) ensures final(self).view() == old(self).view().remove(i), r == old(self).view().contains(i) { unimplemented!() }
}
#[derive(Clone, Copy)] pub enum RegType { Perm(usize), Temp(usize) }
