F_DA = "src/debray_allocator.rs"
STD = ["strip_head", ("name_return", "ret")]

def m(name, extra=()):
    return {"fn": name, "impl": r"impl DebrayAllocator", "file": F_DA, "emit_name": "DebrayAllocator_" + name, "rewrites": STD + list(extra),
            "wrap_pre": "impl DebrayAllocator {\n#[verifier::exec_allows_no_decreases_clause]\n", "wrap_post": "}\n"}

UNIT = {
    "name": "regalloc",
    "prelude": ["prelude.rs"],
    "specs": ["regalloc.spec"],
    "items": [
        # R7: the field types outside this unit (variable records, branch stack, hash map) are opaque shims; the three
        # fields the register pool lives in (in_use, temp_free_list, temp_lb) and the argument window (arity, arg_c) are kept
        {"block": "struct", "header": r"struct DebrayAllocator", "file": F_DA, "rewrites": ["strip_type_head",
            ("replace", "IndexMap<usize, usize, FxBuildHasher>", "OpaqueMap", "R7"), ("replace", "VecDeque<(usize, usize)>", "OpaqueDeque", "R7")]},
        m("is_in_use"),
        m("alloc_reg_to_non_var", extra=[("replace", "for index in self.temp_lb..", "let mut index = self.temp_lb; loop", "R20"),
                                          ("replace", "break; }", "break; } index = index + 1;", "R20", False)]),
        m("add_reg_to_free_list"),
    ],
}
