// ===== Float kernel interface (TRUSTED here; the real functions are proved against the
// same contracts by engine K, unit float_kernels, over all 2^64 bit patterns). =====
// f64 values are opaque to Verus. The f_* functions are the IEEE-754 binary64 operations.
pub uninterp spec fn f_is_nan(f: f64) -> bool;
pub uninterp spec fn f_is_inf(f: f64) -> bool;
pub open spec fn f_finite(f: f64) -> bool { !f_is_nan(f) && !f_is_inf(f) }
pub uninterp spec fn f_add(a: f64, b: f64) -> f64;
pub uninterp spec fn f_mul(a: f64, b: f64) -> f64;
pub uninterp spec fn f_div(a: f64, b: f64) -> f64;
pub uninterp spec fn f_neg(a: f64) -> f64;
pub uninterp spec fn f_abs(a: f64) -> f64;
pub uninterp spec fn f_is_zero(a: f64) -> bool;        // +0.0 or -0.0
pub uninterp spec fn f_lt_zero(a: f64) -> bool;        // a < 0.0 (false for NaN, -0.0)
pub uninterp spec fn f_of_i64(i: int) -> f64;          // `i as f64` (round to nearest even)
pub uninterp spec fn f_of_int(i: int) -> f64;          // dashu IBig::to_f64().value()
pub uninterp spec fn f_of_q(q: Rational) -> f64;       // dashu RBig::to_f64().value()

// IEEE-754 addition and multiplication are commutative (up to NaN payload, which no contract observes)
// an i64 converts to a finite double

pub open spec fn classify_spec(f: f64) -> Result<f64, EvalError> {
    if f_is_nan(f) { Err(EvalError::Undefined) } else if f_is_inf(f) { Err(EvalError::FloatOverflow) } else { Ok(f) }
}

pub mod ax_float {
    use super::*;
    use vstd::prelude::*;
    #[verifier::external_body]
    pub broadcast proof fn axiom_f_add_comm(a: f64, b: f64) ensures #[trigger] f_add(a, b) == f_add(b, a) { }
    #[verifier::external_body]
    pub broadcast proof fn axiom_f_mul_comm(a: f64, b: f64) ensures #[trigger] f_mul(a, b) == f_mul(b, a) { }
    #[verifier::external_body]
    pub broadcast proof fn axiom_f_of_i64_finite(i: int) ensures f_finite(#[trigger] f_of_i64(i)) { }
    // negation and absolute value only touch the sign bit
    #[verifier::external_body]
    pub broadcast proof fn axiom_f_neg_finite(a: f64) ensures f_finite(a) ==> f_finite(#[trigger] f_neg(a)) { }
    #[verifier::external_body]
    pub broadcast proof fn axiom_f_abs_finite(a: f64) ensures f_finite(a) ==> f_finite(#[trigger] f_abs(a)) { }
}
