// ===== std integer methods without a vstd specification (TRUSTED: written from the std documentation). =====
pub assume_specification [<i64>::checked_neg] (a: i64) -> (r: Option<i64>)
    ensures a == i64::MIN ==> r is None, a != i64::MIN ==> r == Some((-a) as i64);
pub assume_specification [<isize>::checked_abs] (a: isize) -> (r: Option<isize>)
    ensures a == isize::MIN ==> r is None, a != isize::MIN ==> r == Some((if a < 0 { -a } else { a as int }) as isize);
pub assume_specification [<i64>::checked_pow] (a: i64, e: u32) -> (r: Option<i64>)
    ensures i64::MIN <= pow_int(a as int, e as nat) <= i64::MAX ==> r == Some(pow_int(a as int, e as nat) as i64),
            !(i64::MIN <= pow_int(a as int, e as nat) <= i64::MAX) ==> r is None;
// arithmetic shift right of a signed integer is flooring division by 2^s (std docs)
pub assume_specification [<i64>::checked_shr] (a: i64, s: u32) -> (r: Option<i64>)
    ensures s < 64 ==> (r matches Some(v) && v == fdiv(a as int, pow_int(2, s as nat))), s >= 64 ==> r is None;
pub assume_specification [<i64>::leading_zeros] (a: i64) -> (r: u32)
    ensures r <= 64, a == 0 ==> r == 64, a < 0 ==> r == 0,
            a > 0 ==> 1 <= r <= 63 && pow_int(2, (63 - r) as nat) <= a < pow_int(2, (64 - r) as nat);
pub assume_specification<T, E> [core::result::Result::<T, E>::unwrap_or] (s: Result<T, E>, d: T) -> (r: T)
    ensures r == (match s { Ok(v) => v, Err(_) => d });
