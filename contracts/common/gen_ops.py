"""Generates the operator part of the shim prelude (TRUSTED): dashu `IBig`/`RBig`
operators are assumed mathematically exact. One line per operator instance in
the tables below; the emitted text is ordinary Verus and is scanned for
assumptions like any other prelude text."""

TRAITS = {  # op -> (trait, method, SpecImpl trait, req, spec)
    "+": ("Add", "add"), "-": ("Sub", "sub"), "*": ("Mul", "mul"), "/": ("Div", "div"), "%": ("Rem", "rem"),
    "&": ("BitAnd", "bitand"), "|": ("BitOr", "bitor"), "^": ("BitXor", "bitxor"), "<<": ("Shl", "shl"), ">>": ("Shr", "shr"),
}

def byval(lhs, rhs, out, op, ens, lt=False):
    tr, m = TRAITS[op]
    g = "<'b>" if lt else ""
    return f"""
impl{g} vstd::std_specs::ops::{tr}SpecImpl<{rhs}> for {lhs} {{
    open spec fn obeys_{m}_spec() -> bool {{ false }}
    open spec fn {m}_req(self, rhs: {rhs}) -> bool {{ true }}
    open spec fn {m}_spec(self, rhs: {rhs}) -> {out} {{ arbitrary() }}
}}
impl{g} core::ops::{tr}<{rhs}> for {lhs} {{
    type Output = {out};
    #[verifier::external_body]
    fn {m}(self, rhs: {rhs}) -> (r: {out}) ensures {ens} {{ unimplemented!() }}
}}
"""

def byref(lhs, rhs, out, op, ens, lt=False):
    tr, m = TRAITS[op]
    g = "<'b>" if lt else ""
    return f"""
impl{g} Ref{tr}<{rhs}> for {lhs} {{
    type Output = {out};
    #[verifier::external_body]
    fn ref_{m}(&self, rhs: {rhs}) -> (r: {out}) ensures {ens} {{ unimplemented!() }}
}}
"""

INT_OPS = {
    "+": "r.v() == self.v() + rhs.v()",
    "-": "r.v() == self.v() - rhs.v()",
    "*": "r.v() == self.v() * rhs.v()",
    "/": "rhs.v() != 0 ==> r.v() == tdiv(self.v(), rhs.v())",
    "%": "rhs.v() != 0 ==> r.v() == trem(self.v(), rhs.v())",
    "&": "r.v() == bitand_int(self.v(), rhs.v())",
    "|": "r.v() == bitor_int(self.v(), rhs.v())",
    "^": "r.v() == bitxor_int(self.v(), rhs.v())",
}

def gen():
    o = []
    for op, (tr, m) in TRAITS.items():
        o.append(f"pub trait Ref{tr}<Rhs> {{ type Output; fn ref_{m}(&self, rhs: Rhs) -> Self::Output; }}\n")
    o.append("pub trait RefNot { type Output; fn ref_not(&self) -> Self::Output; }\n")
    o.append("impl RefNot for Integer { type Output = Integer; #[verifier::external_body] fn ref_not(&self) -> (r: Integer) ensures r.v() == -self.v() - 1 { unimplemented!() } }\n")
    for op, ens in INT_OPS.items():
        o.append(byval("Integer", "Integer", "Integer", op, ens))
        o.append(byval("Integer", "&'b Integer", "Integer", op, ens, lt=True))
        o.append(byref("Integer", "Integer", "Integer", op, ens))
        o.append(byref("Integer", "&'b Integer", "Integer", op, ens, lt=True))
    # shifts by usize
    o.append(byval("Integer", "usize", "Integer", "<<", "r.v() == shl_int(self.v(), rhs as nat)"))
    # dashu's >> is assumed to floor only for NON-NEGATIVE operands: for negative powers of two it
    # returns 0 instead of -1 once the only set bit is shifted out (found by the C01 replay grid)
    o.append(byval("Integer", "usize", "Integer", ">>", "self.v() >= 0 ==> r.v() == shr_int(self.v(), rhs as nat)"))
    o.append(byref("Integer", "usize", "Integer", "<<", "r.v() == shl_int(self.v(), rhs as nat)"))
    o.append(byref("Integer", "usize", "Integer", ">>", "self.v() >= 0 ==> r.v() == shr_int(self.v(), rhs as nat)"))
    o.append("""
impl vstd::std_specs::ops::NotSpecImpl for Integer {
    open spec fn obeys_not_spec() -> bool { false }
    open spec fn not_req(self) -> bool { true }
    open spec fn not_spec(self) -> Integer { arbitrary() }
}
impl core::ops::Not for Integer { type Output = Integer;
    #[verifier::external_body] fn not(self) -> (r: Integer) ensures r.v() == -self.v() - 1 { unimplemented!() } }
""")
    # unary minus
    o.append("""
impl vstd::std_specs::ops::NegSpecImpl for Integer {
    open spec fn obeys_neg_spec() -> bool { false }
    open spec fn neg_req(self) -> bool { true }
    open spec fn neg_spec(self) -> Integer { arbitrary() }
}
impl core::ops::Neg for Integer { type Output = Integer;
    #[verifier::external_body] fn neg(self) -> (r: Integer) ensures r.v() == -self.v() { unimplemented!() } }
impl vstd::std_specs::ops::NegSpecImpl for Rational {
    open spec fn obeys_neg_spec() -> bool { false }
    open spec fn neg_req(self) -> bool { true }
    open spec fn neg_spec(self) -> Rational { arbitrary() }
}
impl core::ops::Neg for Rational { type Output = Rational;
    #[verifier::external_body] fn neg(self) -> (r: Rational) ensures r == q_neg(self) { unimplemented!() } }
""")
    # compound assignment (binary_pow)
    o.append("""
impl<'b> vstd::std_specs::ops::MulAssignSpecImpl<&'b Integer> for Integer {
    open spec fn obeys_mul_assign_spec() -> bool { false }
    open spec fn mul_assign_req(&self, rhs: &'b Integer) -> bool { true }
    open spec fn mul_assign_spec(&self, rhs: &'b Integer) -> &Integer { self }
}
impl<'b> core::ops::MulAssign<&'b Integer> for Integer {
    #[verifier::external_body]
    fn mul_assign(&mut self, rhs: &'b Integer) ensures final(self).v() == old(self).v() * rhs.v() { unimplemented!() }
}
impl vstd::std_specs::ops::ShrAssignSpecImpl<usize> for Integer {
    open spec fn obeys_shr_assign_spec() -> bool { false }
    open spec fn shr_assign_req(&self, rhs: usize) -> bool { true }
    open spec fn shr_assign_spec(&self, rhs: usize) -> &Integer { self }
}
impl core::ops::ShrAssign<usize> for Integer {
    #[verifier::external_body]
    fn shr_assign(&mut self, rhs: usize) ensures final(self).v() == shr_int(old(self).v(), rhs as nat) { unimplemented!() }
}
""")
    # rationals
    # (a second, by-value impl is required next to each by-reference impl: with a single candidate
    #  impl this Verus build dies in codegen_select_candidate)
    o.append(byval("Rational", "Rational", "Rational", "+", "r == q_add(self, rhs)"))
    o.append(byval("Rational", "Rational", "Rational", "*", "r == q_mul(self, rhs)"))
    o.append(byval("Rational", "&'b Rational", "Rational", "+", "r == q_add(self, *rhs)", lt=True))
    o.append(byval("Rational", "&'b Rational", "Rational", "*", "r == q_mul(self, *rhs)", lt=True))
    o.append(byref("Rational", "&'b Rational", "Rational", "+", "r == q_add(*self, *rhs)", lt=True))
    o.append(byref("Integer", "&'b Rational", "Rational", "+", "r == q_add(q_of_int(self.v()), *rhs)", lt=True))
    o.append(byref("Rational", "&'b Rational", "Rational", "/", "q_sign(*rhs) != 0 ==> r == q_div(*self, *rhs)", lt=True))
    return "".join(o)

if __name__ == "__main__":
    print(gen())
