// ===== Shim prelude (TRUSTED): types surrounding the arithmetic kernels. =====
// Every `external_body` / `assume_specification` / `uninterp` / axiom below is an
// assumption and is enumerated in the evidence on every run (assumption scan).

global size_of usize == 8;
global size_of isize == 8;

// ---------------- 56-bit small integers (src/parser/ast.rs `Fixnum`, a modular-bitfield struct).
// v() is DEFINED as the mathematical value of the real `get_num()`. The range axiom
// and the `build_with_checked` contract are discharged on the real code by engine K
// (unit fixnum_repr, harnesses get_num_range / build_with_checked_iff).
#[verifier::external_body]
pub struct Fixnum { _p: u64 }
impl Clone for Fixnum { #[verifier::external_body] fn clone(&self) -> (r: Self) ensures r == *self { unimplemented!() } }
impl Copy for Fixnum {}

pub open spec fn FIX_MIN() -> int { -0x80_0000_0000_0000 }
pub open spec fn FIX_MAX() -> int { 0x7f_ffff_ffff_ffff }
pub open spec fn in_fix(i: int) -> bool { FIX_MIN() <= i <= FIX_MAX() }

pub struct OutOfBounds {}

pub trait MightNotFitInFixnum: Sized {
    spec fn as_int(self) -> int;
}
impl MightNotFitInFixnum for i64 { open spec fn as_int(self) -> int { self as int } }
impl MightNotFitInFixnum for isize { open spec fn as_int(self) -> int { self as int } }
impl MightNotFitInFixnum for usize { open spec fn as_int(self) -> int { self as int } }
impl MightNotFitInFixnum for u64 { open spec fn as_int(self) -> int { self as int } }
impl<'a> MightNotFitInFixnum for &'a Integer { open spec fn as_int(self) -> int { self.v() } }

impl Fixnum {
    pub uninterp spec fn v(&self) -> int;

    // literal values of the real `-(1 << 55)` / `(1 << 55) - 1` (K: fixnum_consts checks the real constants)
    pub const MIN: i64 = -0x80_0000_0000_0000;
    pub const MAX: i64 = 0x7f_ffff_ffff_ffff;

    #[verifier::external_body]
    pub fn get_num(self) -> (r: i64) ensures r == self.v(), in_fix(r as int) { unimplemented!() }

    #[verifier::external_body]
    pub fn build_with_checked<T: MightNotFitInFixnum>(num: T) -> (r: Result<Fixnum, OutOfBounds>)
        ensures in_fix(num.as_int()) ==> (r matches Ok(f) && f.v() == num.as_int()),
                !in_fix(num.as_int()) ==> r is Err,
    { unimplemented!() }

    // Fixnum::build_with(0 | 1 | -1 ...) : FitsInFixnum types only (i32 literals here)
    #[verifier::external_body]
    pub fn build_with(num: i32) -> (r: Fixnum) ensures r.v() == num { unimplemented!() }

    #[verifier::external_body]
    pub fn checked_abs(self) -> (r: Option<Fixnum>)
        ensures self.v() != FIX_MIN() ==> (r matches Some(f) && f.v() == if self.v() < 0 { -self.v() } else { self.v() }),
                self.v() == FIX_MIN() ==> r is None,
    { unimplemented!() }
}
// `!n` on a Fixnum (impl Not for Fixnum): exact, never leaves the range (K: fixnum_not_exact)
impl vstd::std_specs::ops::NotSpecImpl for Fixnum {
    open spec fn obeys_not_spec() -> bool { false }
    open spec fn not_req(self) -> bool { true }
    open spec fn not_spec(self) -> Fixnum { arbitrary() }
}
impl core::ops::Not for Fixnum {
    type Output = Fixnum;
    #[verifier::external_body]
    fn not(self) -> (r: Fixnum) ensures r.v() == -self.v() - 1 { unimplemented!() }
}



// ---------------- dashu big integers / rationals: opaque exec types with a mathematical ghost view.
#[verifier::external_body]
pub struct Integer { _p: u8 }
pub open spec fn mag_below(i: int, b: int) -> bool { -b < i && i < b }
impl Integer {
    pub uninterp spec fn v(&self) -> int;
    #[verifier::external_body] pub fn is_zero(&self) -> (r: bool) ensures r == (self.v() == 0) { unimplemented!() }
    // dashu BitTest::bit_len: number of bits of the MAGNITUDE (ASSUMED; stated at the widths around the
    // small-integer and machine-word boundaries)
    #[verifier::external_body] pub fn bit_len(&self) -> (r: usize)
        ensures (r == 0) == (self.v() == 0),
                (r <= 54) == mag_below(self.v(), 0x40000000000000), (r <= 55) == mag_below(self.v(), 0x80000000000000),
                (r <= 56) == mag_below(self.v(), 0x100000000000000), (r <= 57) == mag_below(self.v(), 0x200000000000000),
                (r <= 62) == mag_below(self.v(), 0x4000000000000000), (r <= 63) == mag_below(self.v(), 0x8000000000000000),
                (r <= 64) == mag_below(self.v(), 0x10000000000000000),
    { unimplemented!() }
    #[verifier::external_body] pub fn is_one(&self) -> (r: bool) ensures r == (self.v() == 1) { unimplemented!() }
    #[verifier::external_body] pub fn is_negative(&self) -> (r: bool) ensures r == (self.v() < 0) { unimplemented!() }
    #[verifier::external_body] pub fn is_positive(&self) -> (r: bool) ensures r == (self.v() > 0) { unimplemented!() }
    #[verifier::external_body] pub fn abs(&self) -> (r: Integer) ensures r.v() == abs_int(self.v()) { unimplemented!() }
    #[verifier::external_body] pub fn unsigned_abs(&self) -> (r: UBig) ensures r.v() == abs_int(self.v()) { unimplemented!() }
    #[verifier::external_body] pub fn pow(&self, e: usize) -> (r: Integer) ensures r.v() == pow_int(self.v(), e as nat) { unimplemented!() }
    #[verifier::external_body] pub fn bit(&self, i: usize) -> (r: bool) ensures i == 0 ==> r == (self.v() % 2 != 0) { unimplemented!() }
    #[verifier::external_body] pub fn gcd(&self, o: &Integer) -> (r: UBig) ensures r.v() == gcd_int(self.v(), o.v()) { unimplemented!() }
}
// num-order crate: exact cross-type comparisons (assumed exact)
pub use core::cmp::Ordering;
pub open spec fn int_cmp(a: int, b: int) -> Ordering { if a < b { Ordering::Less } else if a == b { Ordering::Equal } else { Ordering::Greater } }
pub uninterp spec fn q_cmp(a: Rational, b: Rational) -> Ordering;      // exact order of the rationals
pub trait NumOrd<Rhs>: Sized {
    fn num_eq(&self, o: &Rhs) -> bool;
    fn num_gt(&self, o: &Rhs) -> bool;
    fn num_lt(&self, o: &Rhs) -> bool;
    fn num_partial_cmp(&self, o: &Rhs) -> Option<Ordering>;
}
impl NumOrd<i64> for Integer {
    #[verifier::external_body] fn num_eq(&self, o: &i64) -> (r: bool) ensures r == (self.v() == *o) { unimplemented!() }
    #[verifier::external_body] fn num_gt(&self, o: &i64) -> (r: bool) ensures r == (self.v() > *o) { unimplemented!() }
    #[verifier::external_body] fn num_lt(&self, o: &i64) -> (r: bool) ensures r == (self.v() < *o) { unimplemented!() }
    #[verifier::external_body] fn num_partial_cmp(&self, o: &i64) -> (r: Option<Ordering>) ensures r == Some(int_cmp(self.v(), *o as int)) { unimplemented!() }
}
impl NumOrd<Integer> for Integer {
    #[verifier::external_body] fn num_eq(&self, o: &Integer) -> (r: bool) ensures r == (self.v() == o.v()) { unimplemented!() }
    #[verifier::external_body] fn num_gt(&self, o: &Integer) -> (r: bool) ensures r == (self.v() > o.v()) { unimplemented!() }
    #[verifier::external_body] fn num_lt(&self, o: &Integer) -> (r: bool) ensures r == (self.v() < o.v()) { unimplemented!() }
    #[verifier::external_body] fn num_partial_cmp(&self, o: &Integer) -> (r: Option<Ordering>) ensures r == Some(int_cmp(self.v(), o.v())) { unimplemented!() }
}
impl NumOrd<Integer> for i64 {
    #[verifier::external_body] fn num_eq(&self, o: &Integer) -> (r: bool) ensures r == (*self as int == o.v()) { unimplemented!() }
    #[verifier::external_body] fn num_gt(&self, o: &Integer) -> (r: bool) ensures r == (*self as int > o.v()) { unimplemented!() }
    #[verifier::external_body] fn num_lt(&self, o: &Integer) -> (r: bool) ensures r == ((*self as int) < o.v()) { unimplemented!() }
    #[verifier::external_body] fn num_partial_cmp(&self, o: &Integer) -> (r: Option<Ordering>) ensures r == Some(int_cmp(*self as int, o.v())) { unimplemented!() }
}
impl NumOrd<Rational> for Integer {
    #[verifier::external_body] fn num_eq(&self, o: &Rational) -> (r: bool) ensures r == (q_cmp(q_of_int(self.v()), *o) is Equal) { unimplemented!() }
    #[verifier::external_body] fn num_gt(&self, o: &Rational) -> (r: bool) ensures r == (q_cmp(q_of_int(self.v()), *o) is Greater) { unimplemented!() }
    #[verifier::external_body] fn num_lt(&self, o: &Rational) -> (r: bool) ensures r == (q_cmp(q_of_int(self.v()), *o) is Less) { unimplemented!() }
    #[verifier::external_body] fn num_partial_cmp(&self, o: &Rational) -> (r: Option<Ordering>) ensures r == Some(q_cmp(q_of_int(self.v()), *o)) { unimplemented!() }
}
impl NumOrd<Integer> for Rational {
    #[verifier::external_body] fn num_eq(&self, o: &Integer) -> (r: bool) ensures r == (q_cmp(*self, q_of_int(o.v())) is Equal) { unimplemented!() }
    #[verifier::external_body] fn num_gt(&self, o: &Integer) -> (r: bool) ensures r == (q_cmp(*self, q_of_int(o.v())) is Greater) { unimplemented!() }
    #[verifier::external_body] fn num_lt(&self, o: &Integer) -> (r: bool) ensures r == (q_cmp(*self, q_of_int(o.v())) is Less) { unimplemented!() }
    #[verifier::external_body] fn num_partial_cmp(&self, o: &Integer) -> (r: Option<Ordering>) ensures r == Some(q_cmp(*self, q_of_int(o.v()))) { unimplemented!() }
}
// `Integer::ONE` (associated const of the opaque type) is rewritten to this nullary shim (R5)
#[verifier::external_body]
pub fn integer_one() -> (r: Integer) ensures r.v() == 1 { unimplemented!() }
impl Clone for Integer { #[verifier::external_body] fn clone(&self) -> (r: Self) ensures r == *self { unimplemented!() } }

#[verifier::external_body]
pub struct UBig { _p: u8 }
impl UBig { pub uninterp spec fn v(&self) -> int; }

pub type IBig = Integer;

pub open spec fn abs_int(i: int) -> int { if i < 0 { -i } else { i } }
pub open spec fn pow_int(b: int, e: nat) -> int decreases e { if e == 0 { 1 } else { b * pow_int(b, (e - 1) as nat) } }
// truncating division / remainder (Rust `/`, `%` on integers; dashu follows the same convention)
pub open spec fn tdiv(a: int, b: int) -> int recommends b != 0 {
    if a >= 0 && b > 0 { a / b } else if a < 0 && b > 0 { -((-a) / b) } else if a >= 0 && b < 0 { -(a / (-b)) } else { (-a) / (-b) }
}
pub open spec fn trem(a: int, b: int) -> int recommends b != 0 { vstd::arithmetic::div_mod::rust_rem(a, b) }
// flooring division / modulus (result of mod has the sign of the divisor)
pub open spec fn fdiv(a: int, b: int) -> int recommends b != 0 { if b > 0 { a / b } else { (-a) / (-b) } }
pub open spec fn fmod(a: int, b: int) -> int recommends b != 0 { if b > 0 { a % b } else { -((-a) % (-b)) } }
pub uninterp spec fn gcd_int(a: int, b: int) -> int;
pub uninterp spec fn bitand_int(a: int, b: int) -> int;
pub uninterp spec fn bitor_int(a: int, b: int) -> int;
pub uninterp spec fn bitxor_int(a: int, b: int) -> int;
// floor(a / 2^s) and a * 2^s on mathematical integers
pub open spec fn shl_int(a: int, s: nat) -> int { a * pow_int(2, s) }
pub open spec fn shr_int(a: int, s: nat) -> int { fdiv(a, pow_int(2, s)) }

// From conversions
impl core::convert::From<i64> for Integer { #[verifier::external_body] fn from(n: i64) -> (r: Integer) ensures r.v() == n { unimplemented!() } }
impl core::convert::From<isize> for Integer { #[verifier::external_body] fn from(n: isize) -> (r: Integer) ensures r.v() == n { unimplemented!() } }
impl core::convert::From<usize> for Integer { #[verifier::external_body] fn from(n: usize) -> (r: Integer) ensures r.v() == n { unimplemented!() } }
impl core::convert::From<u64> for Integer { #[verifier::external_body] fn from(n: u64) -> (r: Integer) ensures r.v() == n { unimplemented!() } }
impl core::convert::From<UBig> for Integer { #[verifier::external_body] fn from(n: UBig) -> (r: Integer) ensures r.v() == n.v() { unimplemented!() } }
impl core::convert::From<Fixnum> for Integer { #[verifier::external_body] fn from(n: Fixnum) -> (r: Integer) ensures r.v() == n.v() { unimplemented!() } }
pub assume_specification<T> [<T as core::convert::From<T>>::from] (t: T) -> (r: T) ensures r == t;

#[verifier::external_body]
pub struct Rational { _p: u8 }
impl Clone for Rational { #[verifier::external_body] fn clone(&self) -> (r: Self) ensures r == *self { unimplemented!() } }
// Rationals are viewed as opaque mathematical values; the q_* functions are the exact field operations.
pub uninterp spec fn q_of_int(i: int) -> Rational;
pub uninterp spec fn q_add(a: Rational, b: Rational) -> Rational;
pub uninterp spec fn q_mul(a: Rational, b: Rational) -> Rational;
pub uninterp spec fn q_neg(a: Rational) -> Rational;
pub uninterp spec fn q_div(a: Rational, b: Rational) -> Rational;    // exact quotient, b != 0
pub uninterp spec fn q_abs(a: Rational) -> Rational;
pub uninterp spec fn q_sign(a: Rational) -> int;      // -1, 0, 1
pub uninterp spec fn q_floor(a: Rational) -> int;
pub uninterp spec fn q_round(a: Rational) -> int;
impl Rational {
    #[verifier::external_body] pub fn is_zero(&self) -> (r: bool) ensures r == (q_sign(*self) == 0) { unimplemented!() }
    #[verifier::external_body] pub fn is_negative(&self) -> (r: bool) ensures r == (q_sign(*self) < 0) { unimplemented!() }
    #[verifier::external_body] pub fn is_positive(&self) -> (r: bool) ensures r == (q_sign(*self) > 0) { unimplemented!() }
    #[verifier::external_body] pub fn abs(self) -> (r: Rational) ensures r == q_abs(self) { unimplemented!() }
    // `Rational::from(x)` for x: Rational (the reflexive From impl of core)
    pub fn from_q(q: Rational) -> (r: Rational) ensures r == q { q }
    #[verifier::external_body] pub fn floor(&self) -> (r: Integer) ensures r.v() == q_floor(*self) { unimplemented!() }
    #[verifier::external_body] pub fn round(&self) -> (r: Integer) ensures r.v() == q_round(*self) { unimplemented!() }
}
impl core::convert::From<i64> for Rational { #[verifier::external_body] fn from(n: i64) -> (r: Rational) ensures r == q_of_int(n as int) { unimplemented!() } }
impl core::convert::From<Integer> for Rational { #[verifier::external_body] fn from(n: Integer) -> (r: Rational) ensures r == q_of_int(n.v()) { unimplemented!() } }

// ---------------- arena (src/arena.rs): allocation returns a pointer to the value stored.
#[verifier::external_body]
pub struct Arena { _p: u8 }
#[verifier::external_body] #[verifier::accept_recursive_types(T)]
pub struct TypedArenaPtr<T> { _p: core::marker::PhantomData<T> }
impl<T> Clone for TypedArenaPtr<T> { #[verifier::external_body] fn clone(&self) -> (r: Self) ensures r == *self { unimplemented!() } }
impl<T> Copy for TypedArenaPtr<T> {}
impl<T> TypedArenaPtr<T> { pub uninterp spec fn view(&self) -> T; }
impl<T> core::ops::Deref for TypedArenaPtr<T> {
    type Target = T;
    #[verifier::external_body] fn deref(&self) -> (r: &T) ensures *r == self.view() { unimplemented!() }
}
#[verifier::external_body]
pub fn arena_alloc<T>(e: T, arena: &mut Arena) -> (r: TypedArenaPtr<T>) ensures r.view() == e { unimplemented!() }
// cmp::max / cmp::min on arena pointers compare the pointees (TypedArenaPtr: Ord by deref)
#[verifier::external_body]
pub fn ptr_max_integer(a: TypedArenaPtr<Integer>, b: TypedArenaPtr<Integer>) -> (r: TypedArenaPtr<Integer>)
    ensures r == (if b.view().v() >= a.view().v() { b } else { a }) { unimplemented!() }
#[verifier::external_body]
pub fn ptr_min_integer(a: TypedArenaPtr<Integer>, b: TypedArenaPtr<Integer>) -> (r: TypedArenaPtr<Integer>)
    ensures r == (if b.view().v() < a.view().v() { b } else { a }) { unimplemented!() }

// ---------------- OrderedFloat (ordered-float crate): transparent wrapper.
#[derive(Clone, Copy)]
pub struct OrderedFloat<T>(pub T);

// ---------------- formal error terms. R4 keeps only the formal part of an error; the
// context (`stub_gen`, the culprit functor) is dropped.
pub struct StubGen;
impl Clone for StubGen { fn clone(&self) -> Self { StubGen } }
impl Copy for StubGen {}
pub enum Formal { Eval(EvalError), Type(ValidType, Number), Instantiation }
#[verifier::external_body]
pub struct MachineStubGen { _p: u8 }
impl MachineStubGen { pub uninterp spec fn formal(&self) -> Formal; }
// R4b target: a boxed error-building closure reduced to its formal error term
#[verifier::external_body]
pub fn formal_gen(f: Formal) -> (r: MachineStubGen) ensures r.formal() == f { unimplemented!() }

pub mod ax_number {
    use super::*;
    use vstd::prelude::*;
    #[verifier::external_body]
    pub broadcast proof fn axiom_fixnum_range(f: Fixnum) ensures #[trigger] in_fix(f.v())
    { }
    #[verifier::external_body]
    pub broadcast proof fn axiom_ubig_nonneg(u: UBig) ensures #[trigger] u.v() >= 0 { }
    #[verifier::external_body]
    pub broadcast proof fn axiom_q_sign_range(q: Rational) ensures -1 <= #[trigger] q_sign(q) <= 1 { }
}
