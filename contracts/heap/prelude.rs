// ===== Raw-memory shim (R7, TRUSTED): the model of pointers the heap unit is verified against. =====
// A HeapPtr carries, as ghost state, the size `cap` of the allocation it points into and its byte
// offset `off` from the allocation base. Every raw write/copy shim REQUIRES the touched byte range
// to lie inside [0, cap): "never writes outside the reserved region" is literally the set of these
// preconditions. Nothing executable is dropped; the memory model itself is the trusted part.
global size_of usize == 8;
global size_of HeapCellValue == 8;

#[derive(Clone, Copy)]
pub struct HeapCellValue { pub bits: u64 }

#[verifier::external_body]
pub struct HeapPtr { _p: usize }
impl Clone for HeapPtr { #[verifier::external_body] fn clone(&self) -> (r: Self) ensures r == *self { unimplemented!() } }
impl Copy for HeapPtr {}
#[verifier::external_body]
pub struct CellPtr { _p: usize }
impl Clone for CellPtr { #[verifier::external_body] fn clone(&self) -> (r: Self) ensures r == *self { unimplemented!() } }
impl Copy for CellPtr {}

impl HeapPtr {
    pub uninterp spec fn null(&self) -> bool;
    pub uninterp spec fn cap(&self) -> int;      // bytes in the allocation (0 for null)
    pub uninterp spec fn off(&self) -> int;      // byte offset from the allocation base
    #[verifier::external_body] pub fn is_null(self) -> (r: bool) ensures r == self.null() { unimplemented!() }
    // <*mut u8>::add / byte_add: the result must stay inside the allocation (or one past its end)
    #[verifier::external_body]
    pub fn add(self, n: usize) -> (r: HeapPtr)
        requires n == 0 || !self.null(), 0 <= self.off() + n <= self.cap()
        ensures r.null() == self.null(), r.cap() == self.cap(), r.off() == self.off() + n { unimplemented!() }
    #[verifier::external_body]
    pub fn byte_add(self, n: usize) -> (r: HeapPtr)
        requires n == 0 || !self.null(), 0 <= self.off() + n <= self.cap()
        ensures r.null() == self.null(), r.cap() == self.cap(), r.off() == self.off() + n { unimplemented!() }
    #[verifier::external_body]
    pub fn cast_cell(self) -> (r: CellPtr)
        ensures r.null() == self.null(), r.cap() == self.cap(), r.off() == self.off() { unimplemented!() }
}
impl CellPtr {
    pub uninterp spec fn null(&self) -> bool;
    pub uninterp spec fn cap(&self) -> int;
    pub uninterp spec fn off(&self) -> int;
    #[verifier::external_body]
    pub fn add(self, n: usize) -> (r: CellPtr)
        requires n == 0 || !self.null(), 0 <= self.off() + 8 * n <= self.cap()
        ensures r.null() == self.null(), r.cap() == self.cap(), r.off() == self.off() + 8 * n { unimplemented!() }
    // <*mut HeapCellValue>::write
    #[verifier::external_body]
    pub fn write(self, v: HeapCellValue)
        requires !self.null(), 0 <= self.off(), self.off() + 8 <= self.cap() { unimplemented!() }
}
// a pointer into memory that is only read (e.g. `src.as_ptr()` of a &str)
pub trait ReadPtr: Sized { spec fn readable(self, n: int) -> bool; }
impl ReadPtr for HeapPtr { open spec fn readable(self, n: int) -> bool { (n == 0 || !self.null()) && 0 <= self.off() && self.off() + n <= self.cap() } }
#[verifier::external_body]
pub struct StrPtr { _p: usize }
impl StrPtr { pub uninterp spec fn len(&self) -> int; }
impl ReadPtr for StrPtr { open spec fn readable(self, n: int) -> bool { n <= self.len() } }

pub mod ptr {
    use vstd::prelude::*;
    use super::*;
    #[verifier::external_body]
    pub fn null_mut() -> (r: HeapPtr) ensures r.null(), r.cap() == 0, r.off() == 0 { unimplemented!() }
    // ptr::write(dst.cast::<HeapCellValue>(), cell)
    #[verifier::external_body]
    pub fn write(dst: CellPtr, v: HeapCellValue)
        requires !dst.null(), 0 <= dst.off(), dst.off() + 8 <= dst.cap() { unimplemented!() }
    #[verifier::external_body]
    pub fn write_bytes(dst: HeapPtr, val: u8, count: usize)
        requires count == 0 || !dst.null(), 0 <= dst.off(), dst.off() + count <= dst.cap() { unimplemented!() }
    #[verifier::external_body]
    pub fn copy_nonoverlapping<S: ReadPtr>(src: S, dst: HeapPtr, count: usize)
        requires src.readable(count as int), count == 0 || !dst.null(), 0 <= dst.off(), dst.off() + count <= dst.cap() { unimplemented!() }
}
// std::slice::from_raw_parts_mut(p, len): the whole range must be inside the allocation
#[verifier::external_body]
pub struct RawSliceMut { _p: usize }
impl RawSliceMut {
    pub uninterp spec fn len(&self) -> int;
    // <[u8]>::copy_within(src_range, dest): panics unless both ranges are inside the slice; the shim
    // makes that a proof obligation
    #[verifier::external_body]
    pub fn copy_within(&mut self, src: core::ops::Range<usize>, dest: usize)
        requires src.start <= src.end, src.end <= old(self).len(), dest + (src.end - src.start) <= old(self).len()
        ensures final(self).len() == old(self).len() { unimplemented!() }
    #[verifier::external_body]
    pub fn copy_from_slice(&mut self, src: &[u8])
        requires old(self).len() == src@.len()
        ensures final(self).len() == old(self).len() { unimplemented!() }
}
#[verifier::external_body]
pub fn raw_parts_mut(p: HeapPtr, len: usize) -> (r: RawSliceMut)
    // (a zero-length slice from a null pointer touches no byte; its validity is not a capacity question)
    requires len == 0 || !p.null(), 0 <= p.off(), p.off() + len <= p.cap()
    ensures r.len() == len { unimplemented!() }

// std::alloc (TRUSTED): a successful (re)allocation returns a block of exactly the requested size
pub mod alloc {
    use vstd::prelude::*;
    use super::*;
    #[verifier::external_body] pub struct Layout { _p: usize }
    pub struct LayoutError {}
    impl Layout {
        pub uninterp spec fn sz(&self) -> int;
        // Layout::from_size_align fails (-> unwrap panics = abort) when size rounded up to align exceeds isize::MAX
        #[verifier::external_body]
        pub fn from_size_align(size: usize, align: usize) -> (r: Result<Layout, LayoutError>)
            ensures r matches Ok(l) ==> (l.sz() == size && size <= isize::MAX) { unimplemented!() }
        #[verifier::external_body]
        pub fn size(&self) -> (r: usize) ensures r == self.sz() { unimplemented!() }
    }
    #[verifier::external_body]
    pub fn alloc(l: Layout) -> (r: HeapPtr) ensures !r.null() ==> (r.cap() == l.sz() && r.off() == 0), r.null() ==> r.cap() == 0 { unimplemented!() }
    #[verifier::external_body]
    pub fn realloc(p: HeapPtr, old: Layout, new_size: usize) -> (r: HeapPtr)
        requires !p.null(), p.off() == 0, p.cap() == old.sz()
        ensures !r.null() ==> (r.cap() == new_size && r.off() == 0), r.null() ==> r.cap() == 0 { unimplemented!() }
}
// Result::unwrap on a Layout result: returns only in the Ok case (panics otherwise)
#[verifier::external_body]
pub fn layout_unwrap(r: Result<alloc::Layout, alloc::LayoutError>) -> (l: alloc::Layout) ensures r == Ok::<alloc::Layout, alloc::LayoutError>(l) { unimplemented!() }
// `assert!(c, msg)`: returns only if c holds (R18)
#[verifier::external_body]
pub fn runtime_assert(c: bool) ensures c { unimplemented!() }
// heap_index!(i): size_of::<HeapCellValue>().checked_mul(i), panicking on overflow: a returned value is exact (R5)
#[verifier::external_body]
pub fn heap_index(i: usize) -> (r: usize) ensures r == 8 * i { unimplemented!() }

pub const ALIGN: usize = 8;   // `const ALIGN: usize = Heap::heap_cell_alignment()`; heap_cell_alignment is proved to return 8 below

pub assume_specification [<usize>::next_multiple_of] (a: usize, b: usize) -> (r: usize)
    requires b > 0, a + b - 1 <= usize::MAX
    ensures r >= a, r - a < b, r % b == 0;


pub struct NonZeroUsize { pub v: usize }
pub struct AllocError;

// &str seen through its length only (Verus cannot reason about str contents)
#[verifier::external_body]
pub struct StrRef { _p: usize }
impl Clone for StrRef { #[verifier::external_body] fn clone(&self) -> (r: Self) ensures r == *self { unimplemented!() } }
impl Copy for StrRef {}
impl StrRef {
    pub uninterp spec fn n(&self) -> int;
    #[verifier::external_body] pub fn len(&self) -> (r: usize) ensures r == self.n() { unimplemented!() }
    #[verifier::external_body] pub fn is_empty(&self) -> (r: bool) ensures r == (self.n() == 0) { unimplemented!() }
    #[verifier::external_body] pub fn as_ptr(&self) -> (r: StrPtr) ensures r.len() == self.n() { unimplemented!() }
}
pub struct HeapStringScan { pub string: StrRef, pub tail_idx: usize }

pub trait SizedHeap {
    spec fn cells(&self) -> int;
    fn cell_len(&self) -> (r: usize) ensures r == self.cells();
    fn as_slice(&self) -> (r: &[u8]) ensures r@.len() == 8 * self.cells();
}

// ---- byte-slice helpers standing for iterator pipelines / range indexing (R6)
pub open spec fn first_zero(s: Seq<u8>) -> int decreases s.len() {
    if s.len() == 0 { 0 } else if s[0] == 0 { 0 } else { 1 + first_zero(s.skip(1)) }
}
// `slice.iter().position(|b| *b == 0).unwrap_or(slice.len())`
#[verifier::external_body]
pub fn first_zero_or_len(s: &[u8]) -> (r: usize) ensures r == first_zero(s@), r <= s@.len() { unimplemented!() }
#[verifier::external_body]
pub fn slice_prefix<'a>(s: &'a [u8], n: usize) -> (r: &'a [u8]) requires n <= s@.len() ensures r@ == s@.take(n as int) { unimplemented!() }
#[verifier::external_body]
pub fn slice_from<'a>(s: &'a [u8], n: usize) -> (r: &'a [u8]) requires n <= s@.len() ensures r@ == s@.skip(n as int) { unimplemented!() }
#[verifier::external_body]
pub fn str_from_bytes(s: &[u8]) -> (r: StrRef) ensures r.n() == s@.len() { unimplemented!() }
impl StrRef {
    pub uninterp spec fn bytes(&self) -> Seq<u8>;
    #[verifier::external_body] pub fn as_bytes(&self) -> (r: &[u8]) ensures r@ == self.bytes(), r@.len() == self.n() { unimplemented!() }
}

pub use core::ops::{Bound, Range, RangeBounds};

// ---- &str operations of push_pstr, over the byte view of the text (R6, TRUSTED UTF-8 facts: the byte 0
// occurs in UTF-8 only as the character NUL, so "first char is NUL" is "first byte is 0", `find('\0')`
// is the first zero byte, and the positions before/after a NUL are character boundaries)
#[verifier::external_body]
pub fn str_first_is_nul(s: StrRef) -> (r: bool) ensures r == (s.bytes().len() > 0 && s.bytes()[0] == 0) { unimplemented!() }
#[verifier::external_body]
pub fn str_from(s: StrRef, n: usize) -> (r: StrRef) requires n <= s.n() ensures r.bytes() == s.bytes().skip(n as int), r.n() == s.n() - n { unimplemented!() }
#[verifier::external_body]
pub fn str_range(s: StrRef, a: usize, b: usize) -> (r: StrRef) requires a <= b <= s.n() ensures r.bytes() == s.bytes().subrange(a as int, b as int), r.n() == b - a { unimplemented!() }
#[verifier::external_body]
pub fn str_find_nul(s: StrRef) -> (r: Option<usize>)
    ensures match r { Some(i) => i == first_zero(s.bytes()) && i < s.n() && s.bytes()[i as int] == 0, None => first_zero(s.bytes()) == s.n() } { unimplemented!() }
#[verifier::external_body]
pub fn debug_assert_shim2(a: usize, b: usize) { unimplemented!() }
// cell constructors (content not modelled)
#[verifier::external_body] pub fn list_loc_as_cell(h: usize) -> HeapCellValue { unimplemented!() }
#[verifier::external_body] pub fn pstr_loc_as_cell(h: usize) -> HeapCellValue { unimplemented!() }
#[verifier::external_body] pub fn char_as_cell(c: char) -> HeapCellValue { unimplemented!() }
