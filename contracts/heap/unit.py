F_H = "src/machine/heap.rs"
F_M = "src/macros.rs"

R7 = [("replace", "*mut u8", "HeapPtr", "R7", False),
      ("replace", ".cast::<HeapCellValue>()", ".cast_cell()", "R7", False),
      ("replace", "std::slice::from_raw_parts_mut(", "raw_parts_mut(", "R7", False),
      ("replace", "Option<NonZero<usize>>", "Option<NonZeroUsize>", "R7", False),
      ("replace", "size_of::<HeapCellValue>()", "8usize", "R7", False)]
STD = ["strip_head", "name_return",
       ("macro_fn", "assert", "runtime_assert", "R18", [1]),
       ("macro_fn", "heap_index", "heap_index", "R5"),
       ("expand_macro", "cell_index", F_M, "R5"),
       ("expand_macro", "heap_index_checked", F_M, "R5"),
       ("replace", "std::mem::size_of::<HeapCellValue>()", "8usize", "R7", False),
       ("rename", "unwrap", "unwrap_abort", "R19")] + R7

def m(owner, name, extra=(), **kw):
    # loop_isolation(false): loop bodies may use facts established before the loop, so the invariants
    # below speak only about the heap abstraction and not about the function's temporaries
    d = {"fn": name, "impl": r"impl %s" % owner, "file": F_H, "emit_name": "%s_%s" % (owner, name), "rewrites": STD + list(extra),
         "wrap_pre": "impl %s {\n#[verifier::loop_isolation(false)]\n" % owner, "wrap_post": "}\n"}
    d.update(kw)
    return d

UNIT = {
    "name": "heap",
    "prelude": ["prelude.rs"],
    "specs": ["heap.spec"],
    "items": [
        {"block": "struct", "header": r"struct InnerHeap", "file": F_H, "rewrites": ["strip_type_head"] + R7},
        {"block": "struct", "header": r"struct Heap", "file": F_H, "rewrites": ["strip_type_head"] + R7},
        {"block": "struct", "header": r"struct ReservedHeapSection", "file": F_H, "rewrites": ["strip_type_head"] + R7},
        {"fn": "pstr_sentinel_length", "file": F_H, "rewrites": STD},
        m("Heap", "heap_cell_alignment"),
        m("Heap", "pstr_tail_idx"),
        m("InnerHeap", "grow"),
        m("Heap", "grow"),
        m("Heap", "new"),
        m("Heap", "with_cell_capacity"),
        m("Heap", "free_space"),
        m("Heap", "cell_len"),
        m("Heap", "byte_len"),
        m("Heap", "is_empty"),
        m("Heap", "truncate"),
        m("Heap", "push_cell"),
        m("Heap", "append", extra=[("replace", "let heap_slice =", "let mut heap_slice =", "R7"),
                                    ("replace", "&impl SizedHeap", "&H", "R7"), ("replace", "fn append(", "fn append<H: SizedHeap>(", "R7")]),
        m("Heap", "copy_pstr_within", extra=[("replace", "let slice =", "let mut slice =", "R7")]),
        {"fn": "scan_slice_to_str_from_start", "file": F_H, "rewrites": STD + [
            ("replace", "heap_slice .iter() .position(|b| *b == 0u8) .unwrap_or(heap_slice.len())", "first_zero_or_len(heap_slice)", "R6"),
            ("replace", "&heap_slice[..string_len]", "slice_prefix(heap_slice, string_len)", "R6"),
            ("replace", "unsafe { std::str::from_utf8_unchecked(str_slice) }", "str_from_bytes(str_slice)", "R6"),
            ("replace", "HeapStringScan<'_>", "HeapStringScan", "R7")]},
        m("Heap", "compute_pstr_size", extra=[
            ("replace", "src: &str", "src: StrRef", "R7"),
            ("replace", "&src_bytes[1..]", "slice_from(src_bytes, 1)", "R6"),
            ("replace", "&src_bytes[string.len()..]", "slice_from(src_bytes, string.len())", "R6"),
            ("replace", "src_bytes.is_empty()", "(src_bytes.len() == 0)", "R6")]),
        {"block": "struct", "header": r"struct HeapWriter < 'a >", "file": F_H, "rewrites": ["strip_type_head"] + R7},
        m("Heap", "reserve"),
        m("Heap", "copy_slice_to_end"),
        m("ReservedHeapSection", "cell_len"),
        m("ReservedHeapSection", "push_cell"),
        m("ReservedHeapSection", "push_pstr_segment", extra=[("replace", "src: &str", "src: StrRef", "R7")]),
        m("ReservedHeapSection", "push_pstr", extra=[
            ("replace", "mut src: &str", "mut src: StrRef", "R7"),
            # R6: str iterator / search / range indexing -> named shims over the byte view of the text
            ("replace", "while let Some('\\u{0}') = src.chars().next()", "while str_first_is_nul(src)", "R6"),
            ("replace", "src.find('\\u{0}')", "str_find_nul(src)", "R6"),
            ("str_index", "src"),
            ("macro_fn", "debug_assert_ne", "debug_assert_shim2", "R18"),
            ("macro_fn", "debug_assert_eq", "debug_assert_shim2", "R18"),
            ("macro_fn", "list_loc_as_cell", "list_loc_as_cell", "R5"),
            ("macro_fn", "pstr_loc_as_cell", "pstr_loc_as_cell", "R5"),
            ("macro_fn", "char_as_cell", "char_as_cell", "R5")]),
        # HeapWriter::write_with and the two string allocators that compose reserve / write_with / push_pstr
        {"block": "struct", "header": r"struct HeapSectionWriteResult < R >", "file": F_H, "rewrites": ["strip_type_head"] + R7},
        {"fn": "write_with", "impl": r"impl < 'a > HeapWriter < 'a >", "file": F_H, "emit_name": "HeapWriter_write_with",
         "rewrites": STD + [("replace", "fn write_with<R>(", "fn write_with<R, F: FnOnce(&mut ReservedHeapSection) -> R>(", "R7"),
                            ("replace", "writer: impl FnOnce(&mut ReservedHeapSection) -> R", "writer: F", "R7")],
         "wrap_pre": "impl<'a> HeapWriter<'a> {\n", "wrap_post": "}\n"},
        m("Heap", "allocate_pstr", extra=[("replace", "src: &str", "src: StrRef", "R7"), ("macro_fn", "empty_list_as_cell", "empty_list_as_cell", "R5")]),
        m("Heap", "allocate_cstr", extra=[("replace", "src: &str", "src: StrRef", "R7"), ("macro_fn", "empty_list_as_cell", "empty_list_as_cell", "R5")]),
    ],
}
