F_D = "src/machine/dispatch.rs"
F_T = "src/types.rs"
F_INS = "src/instructions.rs"
F_M = "src/macros.rs"
F_A = "src/arena.rs"

RW = ["strip_head", "name_return",
      ("expand_read_heap_cell", F_M),
      ("atom_pattern_guard", "atom_of"),
      ("macro_fn", "cell_as_atom_cell", "cell_as_atom_cell", "R5"),
      ("macro_fn", "cell_as_untyped_arena_ptr", "cell_as_untyped_arena_ptr", "R5"),
      ("macro_fn", "atom", "atom_of", "R5"),
      ("macro_fn", "unreachable", "unreachable_abort", "R18"),
      ("macro_fn", "debug_assert", "debug_assert_shim", "R18", [1]),
      ("index_to_method", "self.heap", "at")]

UNIT = {
    "name": "switchsel",
    "prelude": ["prelude.rs"],
    "specs": ["switchsel.spec"],
    "items": [
        {"block": "enum", "header": r"enum HeapCellValueTag", "file": F_T, "rewrites": ["strip_type_head"]},
        {"block": "enum", "header": r"enum ArenaHeaderTag", "file": F_A, "rewrites": ["strip_type_head"]},
        {"block": "enum", "header": r"enum IndexingCodePtr", "file": F_INS, "rewrites": ["strip_type_head"]},
        {"fn": "select_switch_on_term_index", "impl": r"impl MachineState", "file": F_D, "emit_name": "select_switch_on_term_index", "rewrites": RW,
         "wrap_pre": "impl MachineState {\n", "wrap_post": "}\n"},
        {"fn": "select_switch_on_structure_index", "impl": r"impl MachineState", "file": F_D, "emit_name": "select_switch_on_structure_index", "rewrites": RW,
         "wrap_pre": "impl MachineState {\n", "wrap_post": "}\n"},
    ],
}
