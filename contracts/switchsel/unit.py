F_D = "src/machine/dispatch.rs"
F_T = "src/types.rs"
F_INS = "src/instructions.rs"
F_M = "src/macros.rs"
F_A = "src/arena.rs"

RW = ["strip_head", "name_return",
      ("expand_read_heap_cell", F_M),
      ("atom_pattern_guard", "atom_of"),
      ("macro_fn", "cell_as_atom_cell", "cell_as_atom_cell", "R5"),
      ("macro_fn", "cell_as_untyped_arena_ptr", "cell_as_untyped_arena_ptr", "R5"),
      ("macro_fn", "atom", "atom_of", "R5"),
      ("macro_fn", "unreachable", "unreachable_abort", "R18"),
      ("macro_fn", "debug_assert", "debug_assert_shim", "R18", [1]),
      ("index_to_method", "self.heap", "at")]

UNIT = {
    "name": "switchsel",
    "prelude": ["prelude.rs"],
    "specs": ["switchsel.spec"],
    "items": [
        {"block": "enum", "header": r"enum HeapCellValueTag", "file": F_T, "rewrites": ["strip_type_head"]},
        {"block": "enum", "header": r"enum ArenaHeaderTag", "file": F_A, "rewrites": ["strip_type_head"]},
        {"block": "enum", "header": r"enum IndexingCodePtr", "file": F_INS, "rewrites": ["strip_type_head"]},
        {"fn": "select_switch_on_term_index", "impl": r"impl MachineState", "file": F_D, "emit_name": "select_switch_on_term_index", "rewrites": RW,
         "wrap_pre": "impl MachineState {\n", "wrap_post": "}\n"},
        {"fn": "select_switch_on_structure_index", "impl": r"impl MachineState", "file": F_D, "emit_name": "select_switch_on_structure_index", "rewrites": RW,
         "wrap_pre": "impl MachineState {\n", "wrap_post": "}\n"},
        {"block": "enum", "header": r"enum IndexingInstruction", "file": F_INS, "rewrites": ["strip_type_head"]},
        {"block": "enum", "header": r"enum IndexingLine", "file": F_INS, "rewrites": ["strip_type_head"]},
        # the dispatch of a call on its first argument. R12: the nested validity test is a shim; R7: reading the indexing
        # lines out of the code vector and the argument out of the registers are shims
        {"fn": "execute_switch_on_term", "impl": r"impl Machine", "file": F_D, "emit_name": "Machine_execute_switch_on_term",
         "rewrites": ["strip_head", "name_return", ("hoist_out", "dynamic_external_of_clause_is_valid"),
            ("replace", "self.code[self.machine_st.p].to_indexing_line_mut().unwrap()", "self.indexing_lines_at_p()", "R7"),
            ("replace", "self .machine_st .store(self.machine_st.deref(self.machine_st.registers[arg]))", "self.machine_st.argument(arg)", "R7"),
            ("macro_fn", "unreachable", "unreachable_abort", "R18"), "ref_patterns"],
         "wrap_pre": "impl Machine {\n#[verifier::exec_allows_no_decreases_clause]\n", "wrap_post": "}\n"},
    ],
}
