// ===== Shim prelude of unit switchsel (TRUSTED). =====
use core::marker::PhantomData;
global size_of usize == 8;
#[derive(Clone, Copy)]
pub struct HeapCellValue { pub bits: u64 }
impl HeapCellValue {
    pub uninterp spec fn tag(&self) -> HeapCellValueTag;
    pub uninterp spec fn val(&self) -> u64;
    #[verifier::external_body] pub fn get_tag(self) -> (r: HeapCellValueTag) ensures r == self.tag() { unimplemented!() }
    #[verifier::external_body] pub fn get_value(self) -> (r: u64) ensures r == self.val() { unimplemented!() }
}
impl Clone for HeapCellValueTag { #[verifier::external_body] fn clone(&self) -> (r: Self) ensures r == *self { unimplemented!() } }
impl Copy for HeapCellValueTag {}
impl Clone for ArenaHeaderTag { #[verifier::external_body] fn clone(&self) -> (r: Self) ensures r == *self { unimplemented!() } }
impl Copy for ArenaHeaderTag {}
impl Clone for IndexingCodePtr { #[verifier::external_body] fn clone(&self) -> (r: Self) ensures r == *self { unimplemented!() } }
impl Copy for IndexingCodePtr {}
#[derive(Clone, Copy)]
pub struct Atom { pub index: u64 }
impl vstd::std_specs::cmp::PartialEqSpecImpl for Atom {
    open spec fn obeys_eq_spec() -> bool { true }
    open spec fn eq_spec(&self, other: &Atom) -> bool { self.index == other.index }
}
impl PartialEq for Atom { fn eq(&self, other: &Atom) -> (r: bool) ensures r == (self.index == other.index) { self.index == other.index } }
pub uninterp spec fn atom_index(s: Seq<char>) -> u64;
#[verifier::external_body] pub fn atom_of(s: &str) -> (r: Atom) ensures r.index == atom_index(s@) { unimplemented!() }
pub struct AtomCell { pub name: Atom, pub arity: usize }
impl AtomCell { pub fn get_name_and_arity(&self) -> (r: (Atom, usize)) ensures r == (self.name, self.arity) { (self.name, self.arity) } }
pub uninterp spec fn functor_of(c: HeapCellValue) -> AtomCell;
#[verifier::external_body] pub fn cell_as_atom_cell(c: HeapCellValue) -> (r: AtomCell) ensures r == functor_of(c) { unimplemented!() }
// the arena object a Cons cell points to, seen through its header tag
#[derive(Clone, Copy)] pub struct UntypedArenaPtr { pub p: u64 }
pub uninterp spec fn arena_tag(c: HeapCellValue) -> ArenaHeaderTag;
pub uninterp spec fn arena_ptr_tag(p: UntypedArenaPtr) -> ArenaHeaderTag;
#[verifier::external_body] pub fn cell_as_untyped_arena_ptr(c: HeapCellValue) -> (r: UntypedArenaPtr) ensures arena_ptr_tag(r) == arena_tag(c) { unimplemented!() }
impl UntypedArenaPtr { #[verifier::external_body] pub fn get_tag(self) -> (r: ArenaHeaderTag) ensures r == arena_ptr_tag(self) { unimplemented!() } }
#[verifier::external_body] pub struct Heap { _p: usize }
impl Heap {
    pub uninterp spec fn cells(&self) -> Seq<HeapCellValue>;
    #[verifier::external_body] pub fn at(&self, i: usize) -> (r: HeapCellValue) ensures i < self.cells().len(), r == self.cells()[i as int] { unimplemented!() }
}
#[derive(Clone, Copy)] pub enum FirstOrNext { First, Next }
pub struct MachineState { pub heap: Heap, pub p: usize, pub fail: bool, pub oip: u32, pub iip: u32, pub dynamic_mode: FirstOrNext }
impl MachineState {
    pub uninterp spec fn arg_cell(&self, arg: usize) -> HeapCellValue;
    // store(deref(registers[arg]))
    #[verifier::external_body] pub fn argument(&self, arg: usize) -> (r: HeapCellValue) ensures r == self.arg_cell(arg) { unimplemented!() }
}
#[verifier::external_body] pub struct Code { _p: usize }
pub struct Machine { pub code: Code, pub machine_st: MachineState }
impl Machine {
    pub uninterp spec fn lines(&self) -> Seq<IndexingLine>;
    // `self.code[self.machine_st.p].to_indexing_line_mut().unwrap()`: the indexing lines of the instruction at p
    #[verifier::external_body] pub fn indexing_lines_at_p(&self) -> (r: &Vec<IndexingLine>) ensures r@ == self.lines() { unimplemented!() }
}
// the nested test of execute_switch_on_term: is the dynamic clause at code position p alive for this call?
pub uninterp spec fn clause_alive(m: Machine, p: int) -> bool;
#[verifier::external_body]
pub fn dynamic_external_of_clause_is_valid(machine: &mut Machine, p: usize) -> (r: bool)
    ensures r == clause_alive(*old(machine), p as int), final(machine).lines() == old(machine).lines(),
            final(machine).machine_st.p == old(machine).machine_st.p, final(machine).machine_st.fail == old(machine).machine_st.fail,
            final(machine).machine_st.oip == old(machine).machine_st.oip, final(machine).machine_st.iip == old(machine).machine_st.iip,
            final(machine).machine_st.heap == old(machine).machine_st.heap { unimplemented!() }
pub struct VecDeque<T> { pub v: Vec<T> }
pub enum IndexedChoiceInstruction { Try(usize), Retry(usize), Trust(usize), DefaultRetry(usize), DefaultTrust(usize) }
pub struct FxBuildHasher;
#[verifier::external_body]
#[verifier::reject_recursive_types(K)]
#[verifier::reject_recursive_types(V)]
#[verifier::accept_recursive_types(S)]
pub struct IndexMap<K, V, S> { _p: PhantomData<(K, V, S)> }
impl<K, V, S> IndexMap<K, V, S> {
    pub uninterp spec fn view(&self) -> Map<K, V>;
    #[verifier::external_body]
    pub fn get(&self, k: &K) -> (r: Option<&V>)
        ensures match r { Some(v) => self@.contains_key(*k) && *v == self@[*k], None => !self@.contains_key(*k) } { unimplemented!() }
}
#[verifier::external_body] pub fn unreachable_abort() -> ! { unimplemented!() }
#[verifier::external_body] pub fn debug_assert_shim(b: bool) { unimplemented!() }
