// ===== Shim prelude of unit switchsel (TRUSTED). =====
use core::marker::PhantomData;
global size_of usize == 8;
#[derive(Clone, Copy)]
pub struct HeapCellValue { pub bits: u64 }
impl HeapCellValue {
    pub uninterp spec fn tag(&self) -> HeapCellValueTag;
    pub uninterp spec fn val(&self) -> u64;
    #[verifier::external_body] pub fn get_tag(self) -> (r: HeapCellValueTag) ensures r == self.tag() { unimplemented!() }
    #[verifier::external_body] pub fn get_value(self) -> (r: u64) ensures r == self.val() { unimplemented!() }
}
impl Clone for HeapCellValueTag { #[verifier::external_body] fn clone(&self) -> (r: Self) ensures r == *self { unimplemented!() } }
impl Copy for HeapCellValueTag {}
impl Clone for ArenaHeaderTag { #[verifier::external_body] fn clone(&self) -> (r: Self) ensures r == *self { unimplemented!() } }
impl Copy for ArenaHeaderTag {}
impl Clone for IndexingCodePtr { #[verifier::external_body] fn clone(&self) -> (r: Self) ensures r == *self { unimplemented!() } }
impl Copy for IndexingCodePtr {}
#[derive(Clone, Copy)]
pub struct Atom { pub index: u64 }
impl vstd::std_specs::cmp::PartialEqSpecImpl for Atom {
    open spec fn obeys_eq_spec() -> bool { true }
    open spec fn eq_spec(&self, other: &Atom) -> bool { self.index == other.index }
}
impl PartialEq for Atom { fn eq(&self, other: &Atom) -> (r: bool) ensures r == (self.index == other.index) { self.index == other.index } }
pub uninterp spec fn atom_index(s: Seq<char>) -> u64;
#[verifier::external_body] pub fn atom_of(s: &str) -> (r: Atom) ensures r.index == atom_index(s@) { unimplemented!() }
pub struct AtomCell { pub name: Atom, pub arity: usize }
impl AtomCell { pub fn get_name_and_arity(&self) -> (r: (Atom, usize)) ensures r == (self.name, self.arity) { (self.name, self.arity) } }
pub uninterp spec fn functor_of(c: HeapCellValue) -> AtomCell;
#[verifier::external_body] pub fn cell_as_atom_cell(c: HeapCellValue) -> (r: AtomCell) ensures r == functor_of(c) { unimplemented!() }
// the arena object a Cons cell points to, seen through its header tag
#[derive(Clone, Copy)] pub struct UntypedArenaPtr { pub p: u64 }
pub uninterp spec fn arena_tag(c: HeapCellValue) -> ArenaHeaderTag;
pub uninterp spec fn arena_ptr_tag(p: UntypedArenaPtr) -> ArenaHeaderTag;
#[verifier::external_body] pub fn cell_as_untyped_arena_ptr(c: HeapCellValue) -> (r: UntypedArenaPtr) ensures arena_ptr_tag(r) == arena_tag(c) { unimplemented!() }
impl UntypedArenaPtr { #[verifier::external_body] pub fn get_tag(self) -> (r: ArenaHeaderTag) ensures r == arena_ptr_tag(self) { unimplemented!() } }
#[verifier::external_body] pub struct Heap { _p: usize }
impl Heap {
    pub uninterp spec fn cells(&self) -> Seq<HeapCellValue>;
    #[verifier::external_body] pub fn at(&self, i: usize) -> (r: HeapCellValue) ensures i < self.cells().len(), r == self.cells()[i as int] { unimplemented!() }
}
pub struct MachineState { pub heap: Heap }
pub struct FxBuildHasher;
#[verifier::external_body]
#[verifier::reject_recursive_types(K)]
#[verifier::reject_recursive_types(V)]
#[verifier::accept_recursive_types(S)]
pub struct IndexMap<K, V, S> { _p: PhantomData<(K, V, S)> }
impl<K, V, S> IndexMap<K, V, S> {
    pub uninterp spec fn view(&self) -> Map<K, V>;
    #[verifier::external_body]
    pub fn get(&self, k: &K) -> (r: Option<&V>)
        ensures match r { Some(v) => self@.contains_key(*k) && *v == self@[*k], None => !self@.contains_key(*k) } { unimplemented!() }
}
#[verifier::external_body] pub fn unreachable_abort() -> ! { unimplemented!() }
#[verifier::external_body] pub fn debug_assert_shim(b: bool) { unimplemented!() }
