import gen_ops
F_IX = "src/indexing.rs"
F_TY = "src/types.rs"
F_AST = "src/parser/ast.rs"
STD = ["strip_head", "name_return", "map_ctor_ok",
       ("macro_fn", "atom_as_cell", "atom_as_cell", "R5"),
       ("macro_fn", "fixnum_as_cell", "fixnum_as_cell", "R5"),
       ("macro_fn", "typed_arena_ptr_as_cell", "typed_arena_ptr_as_cell", "R5")]
UNIT = {
    "name": "indexkey",
    "prelude": ["../common/number.rs", gen_ops.gen, "prelude.rs"],
    "specs": ["indexkey.spec"],
    "explicit_use": ["Integer"],
    "broadcast_use": ["ax_number::axiom_fixnum_range"],
    "items": [
        {"block": "enum", "header": r"enum Literal", "file": F_AST, "rewrites": ["strip_type_head"]},
        {"block": "enum", "header": r"enum Number", "file": "src/forms.rs", "rewrites": ["strip_type_head"]},
        {"block": "enum", "header": r"enum EvalError", "file": "src/machine/machine_errors.rs", "rewrites": ["strip_type_head"]},
        {"block": "enum", "header": r"enum ValidType", "file": "src/machine/machine_errors.rs", "rewrites": ["strip_type_head"]},
        {"fn": "from", "impl": r"impl From < Literal > for HeapCellValue", "file": F_TY, "emit_name": "key_of_literal",
         "rewrites": STD + [("rename_fn", "key_of_literal"), ("replace", "-> (r: Self)", "-> (r: HeapCellValue)", "R3"),
                            ("replace", "HeapCellValue::from(idx)", "code_index_cell(idx)", "R3"), ("replace", "HeapCellValue::from(offset)", "f64_offset_cell(offset)", "R3")]},
        {"fn": "constant_key_alternatives", "file": F_IX, "rewrites": STD},
    ],
}
