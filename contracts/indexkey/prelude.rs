#[derive(Clone, Copy)] pub struct HeapCellValue { pub bits: u64 }
#[derive(Clone, Copy)] pub struct Atom { pub index: u64 }
#[derive(Clone, Copy)] pub struct CodeIndexOffset { pub o: u64 }
#[derive(Clone, Copy)] pub struct F64Offset { pub o: u64 }
impl Clone for Literal { #[verifier::external_body] fn clone(&self) -> (r: Self) ensures r == *self { unimplemented!() } }
impl Copy for Literal {}
// cell constructors as spec functions of what they depend on
pub uninterp spec fn atom_cell(a: Atom) -> HeapCellValue;
pub uninterp spec fn fix_cell(v: int) -> HeapCellValue;              // K (fixnum_cell_injective): a Fixnum cell is a function of its value
pub uninterp spec fn ptr_cell_int(p: TypedArenaPtr<Integer>) -> HeapCellValue;    // a function of the ADDRESS, not of the value
pub uninterp spec fn ptr_cell_rat(p: TypedArenaPtr<Rational>) -> HeapCellValue;
pub uninterp spec fn code_cell(c: CodeIndexOffset) -> HeapCellValue;
pub uninterp spec fn f64_cell(o: F64Offset) -> HeapCellValue;
#[verifier::external_body] pub fn atom_as_cell(a: Atom) -> (r: HeapCellValue) ensures r == atom_cell(a) { unimplemented!() }
#[verifier::external_body] pub fn fixnum_as_cell(n: Fixnum) -> (r: HeapCellValue) ensures r == fix_cell(n.v()) { unimplemented!() }
pub trait PtrCell: Sized { spec fn cell(p: TypedArenaPtr<Self>) -> HeapCellValue; }
impl PtrCell for Integer { open spec fn cell(p: TypedArenaPtr<Integer>) -> HeapCellValue { ptr_cell_int(p) } }
impl PtrCell for Rational { open spec fn cell(p: TypedArenaPtr<Rational>) -> HeapCellValue { ptr_cell_rat(p) } }
#[verifier::external_body] pub fn typed_arena_ptr_as_cell<T: PtrCell>(p: TypedArenaPtr<T>) -> (r: HeapCellValue) ensures r == T::cell(p) { unimplemented!() }
#[verifier::external_body] pub fn code_index_cell(c: CodeIndexOffset) -> (r: HeapCellValue) ensures r == code_cell(c) { unimplemented!() }
#[verifier::external_body] pub fn f64_offset_cell(o: F64Offset) -> (r: HeapCellValue) ensures r == f64_cell(o) { unimplemented!() }
pub uninterp spec fn q_num(q: Rational) -> int;
pub uninterp spec fn q_den(q: Rational) -> int;
impl Rational {
    #[verifier::external_body] pub fn denominator(&self) -> (r: &UBig) ensures r.v() == q_den(*self) { unimplemented!() }
    #[verifier::external_body] pub fn numerator(&self) -> (r: &Integer) ensures r.v() == q_num(*self) { unimplemented!() }
}
impl UBig { #[verifier::external_body] pub fn is_one(&self) -> (r: bool) ensures r == (self.v() == 1) { unimplemented!() } }

// the value a constant denotes, for the purpose of clause selection (integers of either encoding,
// and rationals with denominator 1, denote the integer)
pub open spec fn int_value(l: Literal) -> Option<int> {
    match l {
        Literal::Fixnum(f) => Some(f.v()),
        Literal::Integer(p) => Some(p.view().v()),
        Literal::Rational(p) => if q_den(p.view()) == 1 { Some(q_num(p.view())) } else { None },
        _ => None,
    }
}
pub open spec fn key_spec(l: Literal) -> HeapCellValue {
    match l {
        Literal::Atom(a) => atom_cell(a), Literal::CodeIndexOffset(c) => code_cell(c), Literal::Fixnum(f) => fix_cell(f.v()),
        Literal::Integer(p) => ptr_cell_int(p), Literal::Rational(p) => ptr_cell_rat(p), Literal::F64(o, _) => f64_cell(o),
    }
}

pub open spec fn alt_value(l: Literal) -> Option<int> {
    match int_value(l) { Some(v) => if (l is Integer || l is Rational) && in_fix(v) { Some(v) } else { None }, None => None }
}
pub open spec fn rat_of(l: Literal) -> Rational { match l { Literal::Rational(p) => p.view(), _ => arbitrary() } }
pub open spec fn atom_of(l: Literal) -> Atom { match l { Literal::Atom(a) => a, _ => arbitrary() } }
