global size_of usize == 8;
global size_of isize == 8;
pub assume_specification [<isize>::checked_abs] (a: isize) -> (r: Option<isize>)
    ensures a == isize::MIN ==> r is None, a != isize::MIN ==> r == Some((if a < 0 { -a } else { a as int }) as isize);

pub open spec fn pow2(s: nat) -> nat decreases s { if s == 0 { 1 } else { 2 * pow2((s - 1) as nat) } }
// `x << s` on isize with an isize shift amount (this Verus build rejects shifts by a signed amount):
// TRUSTED machine semantics - a left shift that does not overflow multiplies by 2^s
#[verifier::external_body]
pub fn isize_shl(x: isize, s: isize) -> (r: isize)
    requires 0 <= s < 64
    ensures (x >= 0 && x * pow2(s as nat) <= isize::MAX) ==> r == x * pow2(s as nat)
{ unimplemented!() }
