F_OPS = "src/machine/arithmetic_ops.rs"
UNIT = {
    "name": "gcd",
    "prelude": ["prelude.rs"],
    "specs": ["gcd.spec"],
    "items": [
        {"fn": "isize_gcd", "file": F_OPS, "rewrites": ["strip_head", "name_return", ("replace", "n1 << shift as isize", "isize_shl(n1, shift as isize)", "R10")]},
    ],
}
