// ===== Shim prelude of unit chanstream (TRUSTED): std::io::Cursor<Vec<u8>>, mpsc::Receiver<Vec<u8>>, io::Error =====
global size_of usize == 8;
pub struct IoError;
pub enum TryRecvError { Empty, Disconnected }
pub enum SeekFrom { Start(u64) }
// Cursor<Vec<u8>>: a byte vector and a read/write position
#[verifier::external_body] pub struct Cur { _p: usize }
impl Cur {
    pub uninterp spec fn data(&self) -> Seq<u8>;
    pub uninterp spec fn pos(&self) -> int;
    pub open spec fn wf(&self) -> bool { 0 <= self.pos() <= self.data().len() }
    pub open spec fn rest(&self) -> Seq<u8> { self.data().skip(self.pos()) }
    // Read::read on `&mut buf[start..]`: copies as much as both sides allow, advances the position
    #[verifier::external_body]
    pub fn read_at(&mut self, buf: &mut [u8], start: usize) -> (r: Result<usize, IoError>)
        requires start <= old(buf)@.len(), old(self).wf()
        ensures final(buf)@.len() == old(buf)@.len(), final(self).data() == old(self).data(),
            r is Err ==> final(self).pos() == old(self).pos() && final(buf)@ == old(buf)@,
            r matches Ok(n) ==> n <= old(buf)@.len() - start && n <= old(self).data().len() - old(self).pos()
                && (n == old(buf)@.len() - start || n == old(self).data().len() - old(self).pos())
                && final(self).pos() == old(self).pos() + n
                && final(buf)@ == old(buf)@.take(start as int) + old(self).data().subrange(old(self).pos(), old(self).pos() + n) + old(buf)@.skip(start + n),
    { unimplemented!() }
    #[verifier::external_body] pub fn position(&self) -> (r: u64) requires self.wf() ensures r == self.pos() { unimplemented!() }
    #[verifier::external_body] pub fn get_ref(&self) -> (r: &Vec<u8>) ensures r@ == self.data() { unimplemented!() }
    // Write::write_all at the current position (the code asserts position == len: an append)
    #[verifier::external_body]
    pub fn write_all(&mut self, src: &Vec<u8>) -> (r: Result<(), IoError>)
        requires old(self).pos() == old(self).data().len()
        ensures r is Ok ==> final(self).data() == old(self).data() + src@ && final(self).pos() == old(self).pos() + src@.len(),
                r is Err ==> final(self).data() == old(self).data() && final(self).pos() == old(self).pos() { unimplemented!() }
    #[verifier::external_body]
    pub fn seek(&mut self, to: SeekFrom) -> (r: Result<u64, IoError>)
        ensures final(self).data() == old(self).data(),
                r is Ok ==> (match to { SeekFrom::Start(p) => final(self).pos() == p }),
                r is Err ==> final(self).pos() == old(self).pos() { unimplemented!() }
}
// Receiver<Vec<u8>>: the chunks already sent and not yet received; Empty may be answered at any time (data still on
// its way), Disconnected only when nothing is pending
#[verifier::external_body] pub struct Chan { _p: usize }
impl Chan {
    pub uninterp spec fn pending(&self) -> Seq<Seq<u8>>;
    // try_recv (R13: renamed, takes &mut so that the ghost queue can change)
    #[verifier::external_body]
    pub fn try_recv_m(&mut self) -> (r: Result<Vec<u8>, TryRecvError>)
        ensures r matches Ok(d) ==> old(self).pending().len() > 0 && d@ == old(self).pending()[0] && final(self).pending() == old(self).pending().skip(1),
                r is Err ==> final(self).pending() == old(self).pending(),
                // a disconnected channel has delivered everything
                r matches Err(TryRecvError::Disconnected) ==> old(self).pending().len() == 0 { unimplemented!() }
}
pub struct InputChannelStream { pub inner: Cur, pub eof: bool, pub channel: Chan }
#[verifier::external_body] pub fn runtime_assert_eq(a: usize, b: usize) ensures a == b { unimplemented!() }
