F_S = "src/machine/streams.rs"

UNIT = {
    "name": "chanstream",
    "prelude": ["prelude.rs"],
    "specs": ["chanstream.spec"],
    "items": [
        # R3: Read::read emitted as an inherent method; R7: Cursor<Vec<u8>>, Receiver<Vec<u8>> and io::Error are shims
        {"fn": "read", "impl": r"impl Read for InputChannelStream", "file": F_S, "emit_name": "InputChannelStream_read",
         "rewrites": ["strip_head", "name_return",
            ("replace", "std::io::Result<usize>", "Result<usize, IoError>", "R7"),
            # R6: reading into the sub-slice `&mut buf[total_read..]` becomes (slice, start)
            ("replace", "self.inner.read(&mut buf[total_read..])", "self.inner.read_at(buf, total_read)", "R6"),
            ("rename", "try_recv", "try_recv_m", "R13"),
            ("macro_fn", "assert_eq", "runtime_assert_eq", "R18")],
         "wrap_pre": "impl InputChannelStream {\n#[verifier::exec_allows_no_decreases_clause]\n", "wrap_post": "}\n"},
    ],
}
