#!/bin/sh
# Offline setup: nothing to build ahead of time. The checks are Python 3 (stdlib
# only) drivers around the pre-installed verus / cargo-kani; they rebuild what
# they need from /repo's working tree on every run.
set -e
cd "$(dirname "$0")"
command -v verus >/dev/null
command -v cargo-kani >/dev/null || command -v kani >/dev/null
python3 -c 'import json,sys; json.load(open("MANIFEST.json"))'
mkdir -p evidence .cache .scratch
echo "setup ok"
