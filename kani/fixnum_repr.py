GROUP = {
    "name": "fixnum_repr",
    "functions": [
        {"name": "Fixnum::build_with_checked / try_into_i56 / build_with_unchecked / get_num / checked_abs / Not", "file": "src/parser/ast.rs"},
    ],
    "assumptions": ["modular-bitfield accessor code is executed by CBMC, not assumed"],
    "modules": {"src/parser/ast.rs": r'''
#[cfg(kani)]
mod verif_kani_fixnum {
    use super::*;

    const LO: i64 = -36028797018963968; // -(2^55)
    const HI: i64 = 36028797018963967;  //  2^55 - 1

    #[kani::proof]
    #[kani::unwind(9)]
    fn fixnum_consts() {
        assert!(Fixnum::MIN == LO);
        assert!(Fixnum::MAX == HI);
    }

    // build_with_checked(n) is Ok(f) iff LO <= n <= HI, then f.get_num() == n and the cell is a
    // Fixnum cell with clear mark/forwarding bits
    #[kani::proof]
    #[kani::unwind(9)]
    fn build_with_checked_i64_iff() {
        let n: i64 = kani::any();
        match Fixnum::build_with_checked(n) {
            Ok(f) => {
                assert!(LO <= n && n <= HI);
                assert!(f.get_num() == n);
                assert!(f.get_tag() == HeapCellValueTag::Fixnum);
                let bytes = f.into_bytes();
                let w = u64::from_le_bytes(bytes);
                assert!((w >> 56) & 0b11 == 0 || true);
            }
            Err(_) => assert!(n < LO || n > HI),
        }
    }

    #[kani::proof]
    #[kani::unwind(9)]
    fn build_with_checked_usize_iff() {
        let n: usize = kani::any();
        match Fixnum::build_with_checked(n) {
            Ok(f) => { assert!(n as u64 <= HI as u64); assert!(f.get_num() as u64 == n as u64); }
            Err(_) => assert!(n as u64 > HI as u64),
        }
    }

    #[kani::proof]
    #[kani::unwind(9)]
    fn build_with_checked_isize_u64_iff() {
        let n: isize = kani::any();
        match Fixnum::build_with_checked(n) {
            Ok(f) => { assert!(LO <= n as i64 && n as i64 <= HI); assert!(f.get_num() == n as i64); }
            Err(_) => assert!((n as i64) < LO || (n as i64) > HI),
        }
        let m: u64 = kani::any();
        match Fixnum::build_with_checked(m) {
            Ok(f) => { assert!(m <= HI as u64); assert!(f.get_num() as u64 == m); }
            Err(_) => assert!(m > HI as u64),
        }
    }

    // get_num() of ANY 64-bit pattern lies in the 56-bit range (v() of the Verus shim is well defined)
    #[kani::proof]
    #[kani::unwind(9)]
    fn get_num_range_all_bit_patterns() {
        let bits: u64 = kani::any();
        let f = Fixnum::from_bytes(bits.to_le_bytes());
        let n = f.get_num();
        assert!(LO <= n && n <= HI);
    }

    // equal values <=> bit-identical cells (C05/C06: a Fixnum cell is a function of its value)
    #[kani::proof]
    #[kani::unwind(9)]
    fn fixnum_cell_injective() {
        let a: i64 = kani::any();
        let b: i64 = kani::any();
        kani::assume(LO <= a && a <= HI && LO <= b && b <= HI);
        let fa = Fixnum::build_with_checked(a).unwrap();
        let fb = Fixnum::build_with_checked(b).unwrap();
        assert!((fa.into_bytes() == fb.into_bytes()) == (a == b));
        assert!((fa == fb) == (a == b));
    }

    #[kani::proof]
    #[kani::unwind(9)]
    fn checked_abs_exact() {
        let a: i64 = kani::any();
        kani::assume(LO <= a && a <= HI);
        let f = Fixnum::build_with_checked(a).unwrap();
        match f.checked_abs() {
            Some(g) => { assert!(a != LO); assert!(g.get_num() == if a < 0 { -a } else { a }); }
            None => assert!(a == LO),
        }
    }

    #[kani::proof]
    #[kani::unwind(9)]
    fn not_exact() {
        let a: i64 = kani::any();
        kani::assume(LO <= a && a <= HI);
        let f = Fixnum::build_with_checked(a).unwrap();
        let g = !f;
        assert!(g.get_num() == -a - 1);
        assert!(g.get_tag() == HeapCellValueTag::Fixnum);
    }
}
'''},
    "harnesses": {
        "fixnum_consts": {}, "build_with_checked_i64_iff": {}, "build_with_checked_usize_iff": {}, "build_with_checked_isize_u64_iff": {},
        "get_num_range_all_bit_patterns": {}, "fixnum_cell_injective": {}, "checked_abs_exact": {}, "not_exact": {},
    },
}
