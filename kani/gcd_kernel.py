GROUP = {
    "name": "gcd_kernel",
    "functions": [{"name": "isize_gcd", "file": "src/machine/arithmetic_ops.rs"}],
    "assumptions": [],
    "modules": {"src/machine/arithmetic_ops.rs": r'''
#[cfg(kani)]
mod verif_kani_gcd {
    use super::*;

    fn euclid(mut a: u64, mut b: u64) -> u64 {
        while b != 0 { let t = a % b; a = b; b = t; }
        a
    }

    // bounded stand-in for the interface contract `isize_gcd(a, b) == Some(g) ==> g == gcd(|a|, |b|)`:
    // all pairs of 6-bit signed operands, against Euclid's algorithm
    #[kani::proof]
    #[kani::unwind(9)]
    fn isize_gcd_matches_euclid_6bit() {
        let a: i16 = kani::any();
        let b: i16 = kani::any();
        kani::assume(a > -64 && a < 64 && b > -64 && b < 64);
        let r = isize_gcd(a as isize, b as isize);
        let g = euclid((a as i64).unsigned_abs(), (b as i64).unsigned_abs());
        match r { Some(x) => assert!(x >= 0 && x as u64 == g), None => assert!(false) }
    }

    // the only None results are the overflowing absolute values
    #[kani::proof]
    #[kani::unwind(3)]
    fn isize_gcd_none_only_for_min() {
        let a: isize = kani::any();
        let b: isize = kani::any();
        kani::assume(a == 0 || b == 0 || a == isize::MIN || b == isize::MIN);
        kani::assume(!(a != 0 && b != 0 && a != isize::MIN && b != isize::MIN));
        kani::assume((a == 0 || b == 0) || (a == isize::MIN || b == isize::MIN));
        if a == 0 { assert!(isize_gcd(a, b) == b.checked_abs()); }
        else if b == 0 { assert!(isize_gcd(a, b) == a.checked_abs()); }
        else { assert!(isize_gcd(a, b).is_none()); }
    }
}
'''},
    "harnesses": {
        "isize_gcd_matches_euclid_6bit": {"bound": "operands restricted to 6-bit signed values (bounded stand-in; the unbounded binary-GCD induction was not attempted)"},
        "isize_gcd_none_only_for_min": {},
    },
}
