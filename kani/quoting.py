GROUP = {
    "name": "quoting",
    "functions": [{"name": "non_quoted_token, non_quoted_graphic_token, char_to_string", "file": "src/heap_print.rs"}],
    "assumptions": ["the character-class macros of src/parser/macros.rs are used on both sides (the decision structure, not the classes, is what is decided)",
                    "restricted to ASCII: with every Unicode scalar value per position the std Unicode table loops exceeded unwind(24) after 22 minutes (tool limit)"],
    "modules": {"src/heap_print.rs": r'''
#[cfg(kani)]
mod verif_kani_quoting {
    use super::*;

    fn spec_unquoted(cs: &[char; 4], len: usize) -> bool {
        if len == 0 { return false; }
        let c0 = cs[0];
        let mut rest_alnum = true;
        let mut all_graphic = true;
        let mut i = 0;
        while i < 4 {
            if i < len {
                let c = cs[i];
                if i >= 1 && !(alpha_numeric_char!(c)) { rest_alnum = false; }
                if !(graphic_token_char!(c)) { all_graphic = false; }
            }
            i += 1;
        }
        // letter-digit token starting with a small letter
        (small_letter_char!(c0) && rest_alnum)
        // graphic token that cannot be misread: not the end token `.`, not a comment opener
        || (all_graphic && !(len == 1 && c0 == '.') && !(len >= 2 && c0 == '/' && cs[1] == '*'))
        // solo atoms
        || (len == 1 && (c0 == '!' || c0 == ';'))
        || (len == 2 && ((c0 == '[' && cs[1] == ']') || (c0 == '{' && cs[1] == '}')))
    }

    fn check(max_char: u32) {
        let cs: [char; 4] = [kani::any(), kani::any(), kani::any(), kani::any()];
        for i in 0..4 { kani::assume((cs[i] as u32) <= max_char); }
        let len: usize = kani::any();
        kani::assume(len <= 4);
        let got = non_quoted_token(cs[..len].iter().cloned());
        assert!(got == spec_unquoted(&cs, len));
    }

    // atoms of up to 4 ASCII characters
    #[kani::proof]
    #[kani::unwind(24)]
    fn non_quoted_token_ascii() { check(0x7f); }

    // quoted output: the nine ISO escapes, exactly; write/1 (is_quoted = false) never adds an escape for them
    fn one(c: char, esc: &[u8]) {
        let q = char_to_string(true, c);
        assert!(q.as_bytes() == esc);
        let w = char_to_string(false, c);
        assert!(w.len() == 1 && w.as_bytes()[0] == c as u8);
    }
    #[kani::proof]
    #[kani::unwind(12)]
    fn char_to_string_named_escapes() {
        one('\'', b"\\'"); one('\n', b"\\n"); one('\r', b"\\r"); one('\t', b"\\t"); one('\u{0b}', b"\\v");
        one('\u{0c}', b"\\f"); one('\u{08}', b"\\b"); one('\u{07}', b"\\a"); one('\\', b"\\\\");
    }
}
'''},
    "harnesses": {
        "non_quoted_token_ascii": {"tier": "thorough", "bound": "atoms of at most 4 characters over ASCII (bounded: longer atoms repeat the same per-character tail test)"},
        "char_to_string_named_escapes": {},
    },
}
