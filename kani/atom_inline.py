import os, sys
sys.path.insert(0, os.path.join(os.path.dirname(os.path.dirname(os.path.abspath(__file__))), "engine"))


def module(repo):
    # the build-time half (build/static_string_indexing.rs) is a separate compilation unit: its function is
    # extracted verbatim on every run and compiled next to the run-time half so that both are compared
    from rustlex import lex, text, find_fns
    p = os.path.join(repo, "build/static_string_indexing.rs")
    src = open(p, encoding="utf-8").read()
    toks = lex(src)
    its = find_fns(toks, "static_string_index")
    if len(its) != 1:
        raise FileNotFoundError("lost anchor: static_string_index in build/static_string_indexing.rs")
    fn_text = text(toks[its[0].start:its[0].body_close + 1]).replace("fn static_string_index", "fn build_static_string_index")
    import re
    m = re.search(r"const\s+INLINED_ATOM_MAX_LEN\s*:\s*usize\s*=\s*(\d+)\s*;", src)
    if not m:
        raise FileNotFoundError("lost anchor: INLINED_ATOM_MAX_LEN in build/static_string_indexing.rs")
    build_max = m.group(1)
    return r'''
#[cfg(kani)]
mod verif_kani_atoms {
    use super::*;

    mod build_half {
        pub(super) const INLINED_ATOM_MAX_LEN: usize = ''' + build_max + r''';
        // ---- extracted verbatim from build/static_string_indexing.rs
        pub(super) ''' + fn_text + r'''
    }

    fn any_text(buf: &mut [u8; 8], max_len: usize, allow_nul: bool) -> usize {
        let len: usize = kani::any();
        kani::assume(len <= max_len);
        for i in 0..8 {
            let b: u8 = kani::any();
            if !allow_nul { kani::assume(b != 0); }
            buf[i] = if i < len { b } else { 0 };
        }
        len
    }

    // text -> inline atom -> text is the identity, the index is (little-endian bytes << 1) | 1, hence
    // two inline atoms are equal iff their texts are
    #[kani::proof]
    #[kani::unwind(9)]
    fn inline_round_trip() {
        let mut buf = [0u8; 8];
        let len = any_text(&mut buf, 6, false);
        kani::assume(len >= 1);
        let arity: u8 = kani::any();
        let s = unsafe { std::str::from_utf8_unchecked(&buf[..len]) };
        let cell = AtomCell::new_inlined(s, arity);
        let name = cell.get_name();
        assert!(name.is_inlined());
        assert!(name.index == (u64::from_le_bytes(buf) << 1) | 1);
        assert!(cell.get_arity() == arity as usize);
        let bytes = name.flat_index().to_le_bytes();
        let back = inlined_to_str(&bytes);
        assert!(back.len() == len);
        let bb = back.as_bytes();
        for i in 0..6 { if i < len { assert!(bb[i] == buf[i]); } }
        assert!(Atom::new_inlined(s).index == name.index);
    }

    #[kani::proof]
    #[kani::unwind(9)]
    fn cell_build_with_round_trip() {
        let index: u64 = kani::any();
        kani::assume(index < (1u64 << 49));
        let arity: u8 = kani::any();
        let cell = AtomCell::build_with(index, arity);
        assert!(cell.get_name().index == index);
        assert!(cell.get_arity() == arity as usize);
        assert!(cell.get_name().is_inlined() == (index & 1 == 1));
    }

    // build-time and run-time halves agree: same guard, same encoding
    #[kani::proof]
    #[kani::unwind(10)]
    fn static_index_agrees_with_runtime() {
        assert!(build_half::INLINED_ATOM_MAX_LEN == INLINED_ATOM_MAX_LEN);
        let mut buf = [0u8; 8];
        let len = any_text(&mut buf, 7, true);
        for i in 0..8 { kani::assume(buf[i] < 0x80); }          // ASCII: str::contains decodes characters
        let s = unsafe { std::str::from_utf8_unchecked(&buf[..len]) };
        let idx: usize = kani::any();
        kani::assume(idx < (1usize << 40));
        let has_nul = { let mut z = false; for i in 0..7 { if i < len && buf[i] == 0 { z = true; } } z };
        let inline_expected = len >= 1 && len <= 6 && !has_nul;
        let r = build_half::build_static_string_index(s, idx);
        if inline_expected {
            assert!(r & 1 == 1);
            assert!(r == Atom::new_inlined(s).index);
        } else {
            assert!(r == (idx as u64) << 1);
        }
    }

    #[kani::proof]
    #[kani::unwind(9)]
    fn char_inlined_agrees() {
        let c: char = kani::any();
        kani::assume(c != '\u{0}');
        let mut b = [0u8; 8];
        let s: &str = c.encode_utf8(&mut b);
        let a1 = AtomCell::new_char_inlined(c).get_name();
        let a2 = Atom::new_inlined(s);
        assert!(a1.index == a2.index);
        assert!(a1.is_inlined());
    }
}
'''


GROUP = {
    "name": "atom_inline",
    "functions": [
        {"name": "AtomCell::{new_inlined, new_char_inlined, build_with, get_name, get_arity}, Atom::{new_inlined, is_inlined, flat_index}, inlined_to_str", "file": "src/atom_table.rs"},
        {"name": "static_string_index (extracted verbatim on every run)", "file": "build/static_string_indexing.rs"},
    ],
    "assumptions": ["interned (non-inline) atoms: phf map / IndexSet<AtomHashByStr> give one atom per text (trusted)",
                    "static_index_agrees_with_runtime is restricted to ASCII bytes (str::contains('\\0') decodes characters); the encoding itself is byte-wise"],
    "modules": {"src/atom_table.rs": module},
    "harnesses": {
        "inline_round_trip": {"bound": None},
        "cell_build_with_round_trip": {},
        "static_index_agrees_with_runtime": {"bound": "texts of 0..=7 ASCII bytes (complete for the guard: lengths 0, 1..6, 7 and NUL placement)"},
        "char_inlined_agrees": {},
    },
}
