GROUP = {
    "name": "float_kernels",
    "functions": [
        {"name": "classify_float, float_fn_to_f, add_f, mul_f, div_f, rnd_i (Float arm)", "file": "src/arithmetic.rs"},
        {"name": "Number::is_zero / is_negative (Float arm)", "file": "src/forms.rs"},
    ],
    "assumptions": ["CBMC's IEEE-754 binary64 theory is the reference computation",
                    "CBMC 'NaN on'/'inf on' side checks are not obligations (the code's own classify_float handles them)",
                    "div_f: that the returned value is the IEEE quotient itself is not decided (CBMC could not prove equality of two symbolic binary64 divisions within 20 minutes); decided: zero-divisor test, finiteness of Ok values, error classes",
                    "<IBig as TryFrom<f64>>::try_from is cut off by a stub that returns an arbitrary Ok value (dashu is outside CBMC's reach)"],
    "modules": {"src/arithmetic.rs": r'''
#[cfg(kani)]
mod verif_kani_float {
    use super::*;

    fn any_f64() -> f64 { f64::from_bits(kani::any()) }
    fn same(a: f64, b: f64) -> bool { a.to_bits() == b.to_bits() }

    // interface contract classify_spec of the Verus shim
    #[kani::proof]
    fn classify_float_spec() {
        let f = any_f64();
        match classify_float(f) {
            Ok(g) => { assert!(f.is_finite()); assert!(same(f, g)); }
            Err(EvalError::FloatOverflow) => assert!(f.is_infinite()),
            Err(EvalError::Undefined) => assert!(f.is_nan()),
            Err(_) => assert!(false),
        }
    }

    #[kani::proof]
    fn float_fn_to_f_spec() {
        let n: i64 = kani::any();
        match float_fn_to_f(n) { Ok(g) => { assert!(g.is_finite()); assert!(same(g, n as f64)); } Err(_) => assert!(false) }
    }

    #[kani::proof]
    fn add_f_spec() {
        let a = any_f64(); let b = any_f64();
        let z = a + b;
        match add_f(a, b) {
            Ok(OrderedFloat(g)) => { assert!(z.is_finite()); assert!(same(g, z)); }
            Err(EvalError::FloatOverflow) => assert!(z.is_infinite()),
            Err(EvalError::Undefined) => assert!(z.is_nan()),
            Err(_) => assert!(false),
        }
    }

    #[kani::proof]
    fn mul_f_spec() {
        let a = any_f64(); let b = any_f64();
        let z = a * b;
        match mul_f(a, b) {
            Ok(OrderedFloat(g)) => { assert!(z.is_finite()); assert!(same(g, z)); }
            Err(EvalError::FloatOverflow) => assert!(z.is_infinite()),
            Err(EvalError::Undefined) => assert!(z.is_nan()),
            Err(_) => assert!(false),
        }
    }

    // zero divisor <=> Err(ZeroDivisor); Ok values are finite; overflow/undefined only for non-finite quotients
    #[kani::proof]
    fn div_f_classes() {
        let a = any_f64(); let b = any_f64();
        match div_f(a, b) {
            Err(EvalError::ZeroDivisor) => assert!(b == 0.0),
            Ok(OrderedFloat(g)) => { assert!(b != 0.0); assert!(g.is_finite()); }
            Err(_) => { assert!(b != 0.0); assert!(!(a.is_finite() && b.is_finite() && b.abs() >= 1.0)); }
        }
    }

    #[kani::proof]
    fn number_float_predicates() {
        let f = any_f64();
        let n = Number::Float(OrderedFloat(f));
        assert!(n.is_zero() == (f == 0.0));
        if !f.is_nan() { assert!(n.is_negative() == (f < 0.0)); }   // a NaN with the sign bit set counts as negative; Numbers never hold NaN
    }

    fn ibig_from_f64_stub(_f: f64) -> Result<dashu::integer::IBig, dashu::base::ConversionError> {
        Ok(dashu::integer::IBig::ZERO)
    }

    // rnd_i on a float: the Fixnum branch is taken iff floor(f) fits 56 bits, and then the value x is
    // exactly floor(f): x <= f < x + 1 (x as f64 is exact for |x| <= 2^53; above that f is integral)
    #[kani::proof]
    #[kani::unwind(9)]
    #[kani::stub(<dashu::integer::IBig as std::convert::TryFrom<f64>>::try_from, ibig_from_f64_stub)]
    fn rnd_i_float() {
        let f = any_f64();
        kani::assume(f.is_finite());
        kani::assume(f >= -72057594037927936.0 && f <= 72057594037927936.0); // |f| <= 2^56: stated domain
        let mut arena = Arena::new().unwrap();
        let n = Number::Float(OrderedFloat(f));
        // floor(f) in [-2^55, 2^55 - 1]  <=>  -2^55 <= f < 2^55
        let fits = f >= -36028797018963968.0 && f < 36028797018963968.0;
        match rnd_i(&n, &mut arena) {
            Ok(Number::Fixnum(x)) => {
                assert!(fits);
                let v = x.get_num();
                assert!(v >= -36028797018963968 && v <= 36028797018963967);
                let xf = v as f64;
                if v >= 9007199254740992 || v <= -9007199254740992 {
                    assert!(xf == f);                 // from 2^53 on every double is integral: floor(f) = f
                } else {
                    assert!(xf <= f);                 // |x| < 2^53: x as f64 and x as f64 + 1.0 are exact
                    assert!(f < xf + 1.0);
                }
            }
            Ok(Number::Integer(_)) => assert!(!fits),
            _ => assert!(false),
        }
        std::mem::forget(arena); // dropping the arena walks its slabs: irrelevant here and very costly for CBMC
    }

    #[kani::proof]
    #[kani::unwind(9)]
    #[kani::stub(<dashu::integer::IBig as std::convert::TryFrom<f64>>::try_from, ibig_from_f64_stub)]
    fn rnd_i_nonfinite() {
        let f = any_f64();
        kani::assume(!f.is_finite());
        let mut arena = Arena::new().unwrap();
        let n = Number::Float(OrderedFloat(f));
        match rnd_i(&n, &mut arena) {
            Err(EvalError::FloatOverflow) => assert!(f.is_infinite()),
            Err(EvalError::Undefined) => assert!(f.is_nan()),
            _ => assert!(false),
        }
        std::mem::forget(arena); // dropping the arena walks its slabs: irrelevant here and very costly for CBMC
    }
}
'''},
    "harnesses": {
        "classify_float_spec": {}, "float_fn_to_f_spec": {}, "add_f_spec": {}, "mul_f_spec": {}, "div_f_classes": {}, "number_float_predicates": {},
        "rnd_i_float": {"stubs": ["try_from"], "bound": "operand domain |f| <= 2^56 (beyond it the result is a bignum on every path); complete over that domain"},
        "rnd_i_nonfinite": {"stubs": ["try_from"]},

    },
}
