GROUP = {
    "name": "order_kernels",
    "functions": [{"name": "HeapCellValue::order_category, TermOrderCategory (derived Ord)", "file": "src/types.rs"}],
    "assumptions": ["Ord for Atom is str comparison of as_str() (byte order = code point order for UTF-8): trusted"],
    "modules": {"src/types.rs": r'''
#[cfg(kani)]
mod verif_kani_order {
    use super::*;

    // Var < Float < Integer/Rational < Atom < Compound
    #[kani::proof]
    fn term_order_category_chain() {
        use TermOrderCategory::*;
        assert!(Variable < FloatingPoint);
        assert!(FloatingPoint < Integer);
        assert!(Integer < Atom);
        assert!(Atom < Compound);
    }

    // the category of a cell is decided by its tag (and, for atoms, its arity)
    #[kani::proof]
    #[kani::unwind(9)]
    fn order_category_of_tagged_cells() {
        let v: u64 = kani::any();
        kani::assume(v < (1u64 << 40));
        let heap = crate::machine::heap::Heap::new();
        let var = HeapCellValue::build_with(HeapCellValueTag::Var, v);
        let svar = HeapCellValue::build_with(HeapCellValueTag::StackVar, v);
        let avar = HeapCellValue::build_with(HeapCellValueTag::AttrVar, v);
        let lis = HeapCellValue::build_with(HeapCellValueTag::Lis, v);
        let pstr = HeapCellValue::build_with(HeapCellValueTag::PStrLoc, v);
        let fix = HeapCellValue::build_with(HeapCellValueTag::Fixnum, v);
        let flt = HeapCellValue::build_with(HeapCellValueTag::F64Offset, v);
        assert!(var.order_category(&heap) == Some(TermOrderCategory::Variable));
        assert!(svar.order_category(&heap) == Some(TermOrderCategory::Variable));
        assert!(avar.order_category(&heap) == Some(TermOrderCategory::Variable));
        assert!(lis.order_category(&heap) == Some(TermOrderCategory::Compound));
        assert!(pstr.order_category(&heap) == Some(TermOrderCategory::Compound));
        assert!(fix.order_category(&heap) == Some(TermOrderCategory::Integer));
        assert!(flt.order_category(&heap) == Some(TermOrderCategory::FloatingPoint));
    }

    // atoms: arity 0 is an atom, anything else a compound
    #[kani::proof]
    #[kani::unwind(9)]
    fn order_category_of_atom_cells() {
        let heap = crate::machine::heap::Heap::new();
        let idx: u64 = kani::any();
        kani::assume(idx < (1u64 << 49));
        let arity: u8 = kani::any();
        let a = HeapCellValue::from_bytes(crate::atom_table::AtomCell::build_with(idx, arity).into_bytes());
        let cat = a.order_category(&heap);
        if arity == 0 { assert!(cat == Some(TermOrderCategory::Atom)); } else { assert!(cat == Some(TermOrderCategory::Compound)); }
    }

    // a structure cell is an atom or a compound according to the arity stored in the heap
    #[kani::proof]
    #[kani::unwind(9)]
    fn order_category_of_str_cells() {
        let mut heap = crate::machine::heap::Heap::with_cell_capacity(1).unwrap();
        let idx: u64 = kani::any();
        kani::assume(idx < (1u64 << 49));
        let arity: u8 = kani::any();
        let a = HeapCellValue::from_bytes(crate::atom_table::AtomCell::build_with(idx, arity).into_bytes());
        heap.push_cell(a).unwrap();
        let s = HeapCellValue::build_with(HeapCellValueTag::Str, 0);
        let cat = s.order_category(&heap);
        if arity == 0 { assert!(cat == Some(TermOrderCategory::Atom)); } else { assert!(cat == Some(TermOrderCategory::Compound)); }
    }
}
'''},
    "harnesses": {"term_order_category_chain": {}, "order_category_of_tagged_cells": {}, "order_category_of_atom_cells": {}, "order_category_of_str_cells": {}},
}
