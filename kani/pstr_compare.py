GROUP = {
    "name": "pstr_compare",
    "functions": [{"name": "compare_pstr_slices, scan_slice_to_str", "file": "src/machine/heap.rs"}],
    "assumptions": ["strings in the heap are valid UTF-8, NUL-terminated and zero-padded to the cell boundary (plus one zero cell when a single padding byte is left), as push_pstr_segment writes them (unit heap)"],
    "modules": {"src/machine/heap.rs": r'''
#[cfg(kani)]
mod verif_kani_pstr_compare {
    use super::*;

    #[repr(align(8))]
    struct Cells([u8; 16]);

    // a string of 0..=2 symbolic characters written at byte offset `off` of an 8-aligned, zeroed buffer;
    // returns its byte length
    fn write_string(buf: &mut Cells, off: usize, max_chars: usize) -> usize {
        let n: usize = kani::any();
        kani::assume(n <= max_chars);
        let mut len = 0usize;
        let mut i = 0;
        while i < 2 {
            if i < n {
                // one representative per UTF-8 length, two 4-byte characters with different lead bytes
                let k: u8 = kani::any();
                kani::assume(k < 6);
                let c: char = match k { 0 => 'a', 1 => 'b', 2 => '\u{e9}', 3 => '\u{20ac}', 4 => '\u{1f600}', _ => '\u{f0000}' };
                let l = c.encode_utf8(&mut buf.0[off + len..off + len + 4]).len();
                len += l;
            }
            i += 1;
        }
        len
    }

    // cell index (in the buffer) of the tail cell of a string whose terminating zero byte is at `z`
    fn tail_cell(z: usize) -> usize {
        let pad = 8 - z % 8;
        (z + pad) / 8 + if pad == 1 { 1 } else { 0 }
    }

    #[kani::proof]
    #[kani::unwind(18)]
    fn compare_pstr_slices_spec() {
        let mut b1 = Cells([0u8; 16]);
        let mut b2 = Cells([0u8; 16]);
        let o1: usize = kani::any();
        let o2: usize = kani::any();
        kani::assume(o1 < 8 && o2 < 8);
        let l1 = write_string(&mut b1, o1, 1);
        let l2 = write_string(&mut b2, o2, 2);
        let s1 = &b1.0[o1..];
        let s2 = &b2.0[o2..];
        let r = compare_pstr_slices(s1, s2);
        // reference: first position where the bytes differ or a string ends
        let mut pos = 0usize;
        while pos < 8 && s1[pos] == s2[pos] && s1[pos] != 0 { pos += 1; }
        let e1 = s1[pos] == 0;
        let e2 = s2[pos] == 0;
        match r {
            PStrSegmentCmpResult::Continue(c1, c2) => {
                assert!(e1 || e2);
                match c1 {
                    PStrContinuable::TailIndex(t) => { assert!(e1); assert!(pos == l1); assert!(t == tail_cell(o1 + l1)); }
                    PStrContinuable::PStrOffset(p) => { assert!(!e1); assert!(p == pos); }
                }
                match c2 {
                    PStrContinuable::TailIndex(t) => { assert!(e2); assert!(pos == l2); assert!(t == tail_cell(o2 + l2)); }
                    PStrContinuable::PStrOffset(p) => { assert!(!e2); assert!(p == pos); }
                }
            }
            // UTF-8 byte order is code-point order: the first differing byte decides
            PStrSegmentCmpResult::Less => { assert!(!e1 && !e2); assert!(s1[pos] < s2[pos]); }
            PStrSegmentCmpResult::Greater => { assert!(!e1 && !e2); assert!(s1[pos] > s2[pos]); }
        }
    }
}
'''},
    "harnesses": {
        "compare_pstr_slices_spec": {"tier": "thorough", "bound": "a string of at most 1 character against one of at most 2 characters, drawn from {a, b, U+E9, U+20AC, U+1F600, U+F0000} (one per UTF-8 length, two 4-byte lead bytes), every start offset inside a cell (bounded)"},
    },
}
