GROUP = {
    "name": "shl_kernel",
    "functions": [{"name": "checked_signed_shl", "file": "src/machine/arithmetic_ops.rs"}],
    "assumptions": [],
    "modules": {"src/machine/arithmetic_ops.rs": r'''
#[cfg(kani)]
mod verif_kani_shl {
    use super::*;

    // a returned value is the exact product x * 2^shift (interface contract of the Verus shim)
    #[kani::proof]
    #[kani::unwind(4)]
    fn checked_signed_shl_exact() {
        let x: i64 = kani::any();
        let shift: usize = kani::any();
        if let Some(v) = checked_signed_shl(x, shift) {
            assert!(shift < 64);
            assert!((v as i128) == (x as i128) << shift);
        }
    }

    // completeness on the Fixnum domain is not required for exactness (the caller falls back to bignums),
    // but zero shifts and small values must not be rejected
    #[kani::proof]
    #[kani::unwind(4)]
    fn checked_signed_shl_zero_shift() {
        let x: i64 = kani::any();
        assert!(checked_signed_shl(x, 0) == Some(x));
    }
}
'''},
    "harnesses": {"checked_signed_shl_exact": {}, "checked_signed_shl_zero_shift": {}},
}
